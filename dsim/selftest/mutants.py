"""Sensitivity self-test: realistic single-site mutants of pycoin, applied to a scratch copy under
/dev/shm (never /repo, never /tmp), each checked with the *quick* command of the property it
should break.  A mutant is killed iff that check exits 1 with a VIOLATION line.

Also runs the independently written seeded changes under /verif/seeded/*/patch.diff with --seeded.
"""
import json
import os
import shutil
import subprocess
import sys
import time
import concurrent.futures as cf

ROOT = os.path.dirname(os.path.dirname(os.path.dirname(os.path.abspath(__file__))))

# (id, property, file, old, new[, count])
M = [
    ("C01-nonce-ignores-hash", "C01", "pycoin/ecdsa/rfc6979.py", 'h1 = val.to_bytes(order_size, "big")', 'h1 = (0).to_bytes(order_size, "big")'),
    ("C01-verify-accepts-s-ge-n", "C01", "pycoin/ecdsa/Generator.py", "if r < 1 or r >= order or s < 1 or s >= order:", "if r < 1 or r >= order or s < 1:"),
    ("C01-verify-infinity-unfixed", "C01", "pycoin/ecdsa/Generator.py", "        if point == self._infinity:\n            return False\n", ""),
    ("C01-recid-unaffected-sign-k-off-by-one", "C01", "pycoin/ecdsa/Generator.py", "k = gen_k(n, secret_exponent, val)  # type: ignore[arg-type]", "k = gen_k(n, secret_exponent, val) + 1  # type: ignore[arg-type]"),
    ("C02-openssl-forgets-mod-order", "C02", "pycoin/ecdsa/native/openssl.py", "                e %= self._order  # type: ignore[attr-defined]", "                pass"),
    ("C02-ladder-wrong-branch", "C02", "pycoin/ecdsa/Curve.py", "result = v[0 if (e & i) else 1]", "result = v[1 if (e & i) else 0]"),
    ("C02-blinding-not-removed", "C02", "pycoin/ecdsa/Generator.py", "return self.raw_mul(e + self._blinding_factor) + self._minus_blinding_factor_g", "return self.raw_mul(e + self._blinding_factor)"),
    ("C02-points-for-x-odd-first", "C02", "pycoin/ecdsa/Generator.py", "if y0 & 1 == 0:", "if y0 & 1 == 1:"),
    ("C02-add-inverse-not-infinity", "C02", "pycoin/ecdsa/Curve.py", "if (y0 + y1) % p == 0:", "if (y0 + y1) % p == 0 and x0 == 0:"),
    ("C04-mask-0x03", "C04", "pycoin/coins/bitcoin/SolutionChecker.py", "if (hash_type & 0x1F) == SIGHASH_NONE:", "if (hash_type & 0x03) == SIGHASH_NONE:"),
    ("C04-anyonecanpay-keeps-inputs", "C04", "pycoin/coins/bitcoin/SolutionChecker.py", "        if hash_type & SIGHASH_ANYONECANPAY:\n            txs_in = [txs_in[unsigned_txs_out_idx]]", "        if False:\n            txs_in = [txs_in[unsigned_txs_out_idx]]"),
    ("C04-bip143-single-commits-output-0", "C04", "pycoin/coins/bitcoin/SegwitChecker.py", "txs_out = txs_out[tx_in_idx : tx_in_idx + 1]", "txs_out = txs_out[0:1]"),
    ("C04-forkid-check-dropped", "C04", "pycoin/coins/bcash/SolutionChecker.py", "if hash_type & SIGHASH_FORKID != SIGHASH_FORKID:", "if False:"),
    ("C04-hash-sequence-ignores-none", "C04", "pycoin/coins/bitcoin/SegwitChecker.py", "            or ((hash_type & 0x1F) == SIGHASH_NONE)\n", ""),
    ("C04-sighash-blanks-real-sequences", "C04", "pycoin/coins/bitcoin/SolutionChecker.py", "        return self.tx.TxIn(\n            tx_in.previous_hash, tx_in.previous_index, b\"\", tx_in.sequence\n        )", "        tx_in.script = b\"\" if False else tx_in.script\n        self.tx.lock_time = self.tx.lock_time\n        tx_in.sequence = tx_in.sequence if idx == unsigned_txs_out_idx else tx_in.sequence\n        return tx_in if False else self.tx.TxIn(\n            tx_in.previous_hash, tx_in.previous_index, b\"\", tx_in.sequence & 0xFFFFFFFE\n        )"),
    ("C04-grs-hash-prevouts-double-sha", "C04", "pycoin/coins/groestlcoin/SolutionChecker.py", "        return sha256(f.getvalue())", "        return sha256(sha256(f.getvalue()))"),
    ("C05-low-s-removed", "C05", "pycoin/solve/some_solvers.py", "            if s + s > order:\n                s = order - s", "            if False:\n                s = order - s"),
    ("C05-hash-type-byte-always-all", "C05", "pycoin/solve/some_solvers.py", "binary_signature = der.sigencode_der(r, s) + bytes([signature_type])", "binary_signature = der.sigencode_der(r, s) + bytes([signature_type & 0x7F])"),
    ("C05-stops-one-signature-early", "C05", "pycoin/solve/some_solvers.py", "if len(existing_signatures) >= len(signature_variables):", "if len(existing_signatures) >= len(signature_variables) - 1 and len(signature_variables) > 1:"),
    ("C05-atom-sort-unfixed", "C05", "pycoin/coins/bitcoin/Solver.py", "return int(k.name[2:])", "return k.name  # type: ignore[return-value]"),
    ("C05-multisig-order-reversed", "C05", "pycoin/solve/some_solvers.py", "existing_signatures.sort()", "existing_signatures.sort(reverse=True)"),
    ("C05-signs-unasked-inputs", "C05", "pycoin/coins/bitcoin/Solver.py", "for tx_in_idx in sorted(tx_in_idx_set):", "for tx_in_idx in range(len(self.tx.txs_in)):"),
    ("C06-missing-unspent-not-checked", "C06", "pycoin/coins/Tx.py", "        if len(self.unspents) <= tx_in_idx or self.unspents[tx_in_idx] is None:\n            return False", "        if False:\n            return False"),
    ("C06-witness-amount-not-committed", "C06", "pycoin/coins/bitcoin/SegwitChecker.py", 'stream_struct("Q", f, tx_out.coin_value)', 'stream_struct("Q", f, 0)'),
    ("C06-hash-prevouts-memoised-on-class", "C06", "pycoin/coins/bitcoin/SegwitChecker.py", "            stream_struct(\"L\", f, tx_in.previous_index)\n        return double_sha256(f.getvalue())", "            stream_struct(\"L\", f, tx_in.previous_index)\n        if getattr(SegwitChecker, \"_hp\", None) is None:\n            SegwitChecker._hp = double_sha256(f.getvalue())  # type: ignore[attr-defined]\n        return SegwitChecker._hp  # type: ignore[attr-defined,no-any-return]"),
    ("C06-locktime-not-committed-legacy", "C06", "pycoin/coins/bitcoin/SolutionChecker.py", "tmp_tx = self.tx.__class__(self.tx.version, txs_in, txs_out, self.tx.lock_time)", "tmp_tx = self.tx.__class__(self.tx.version, txs_in, txs_out, 0)"),
    ("C07-compact-size-65535", "C07", "pycoin/satoshi/satoshi_int.py", "elif v <= 65535:", "elif v < 65535:"),
    ("C07-txid-includes-witness", "C07", "pycoin/coins/bitcoin/Tx.py", "        self.stream(s, include_witness_data=False)\n        if hash_type is not None:", "        self.stream(s)\n        if hash_type is not None:"),
    ("C07-spendable-binary-unfixed", "C07", "pycoin/coins/bitcoin/Spendable.py", "                self.tx_hash,\n                self.tx_out_index,\n                self.block_index_available,\n                bool(", "                self.tx_out_index,\n                self.tx_hash,\n                self.block_index_available,\n                bool("),
    ("C07-unspents-extension-drops-last", "C07", "pycoin/coins/bitcoin/Tx.py", "        for tx_out in self.unspents:\n            if tx_out is None:", "        for tx_out in self.unspents[: max(1, len(self.unspents) - (len(self.unspents) > 2))]:\n            if tx_out is None:"),
    ("C09-child-index-little-endian", "C09", "pycoin/key/bip32.py", 'i_as_bytes = struct.pack(">L", i)', 'i_as_bytes = struct.pack("<L", i)'),
    ("C09-depth-not-incremented", "C09", "pycoin/key/BIP32Node.py", "depth=self._depth + 1, parent_fingerprint", "depth=self._depth, parent_fingerprint"),
    ("C09-cache-key-without-as-private", "C09", "pycoin/key/BIP32Node.py", "lookup = (i, is_hardened, as_private)", "lookup = (i, is_hardened)"),
    ("C09-hardened-from-public-wrong-refusal", "C09", "pycoin/key/BIP32Node.py", "            if is_hardened:\n                raise PublicPrivateMismatchError(", "            if False:\n                raise PublicPrivateMismatchError("),
    ("C09-keychain-compressed-flag-inverted", "C09", "pycoin/key/Keychain.py", "                is_compressed,\n                key._generator,", "                not is_compressed,\n                key._generator,"),
    ("C13-remainder-to-later-outputs", "C13", "pycoin/coins/tx_utils.py", "    for _ in range(extra_count):\n        yield value_each + 1\n    for _ in range(split_count - extra_count):\n        yield value_each", "    for _ in range(split_count - extra_count):\n        yield value_each\n    for _ in range(extra_count):\n        yield value_each + 1"),
    ("C13-insufficient-boundary", "C13", "pycoin/coins/tx_utils.py", "if remaining_coins < zero_count:", "if remaining_coins <= zero_count:"),
    ("C13-validate-ignores-script", "C13", "pycoin/coins/bitcoin/Tx.py", "if tx_out1.script != tx_out2.script:", "if False:"),
    ("C13-validate-amount-greater-only", "C13", "pycoin/coins/bitcoin/Tx.py", "if tx_out1.coin_value != tx_out2.coin_value:", "if tx_out1.coin_value < tx_out2.coin_value:"),
    ("C13-validate-trusts-source-id", "C13", "pycoin/coins/bitcoin/Tx.py", "            if the_tx.hash() != h:\n                raise KeyError(", "            if False:\n                raise KeyError("),
    ("C13-ignore-missing-invents-output", "C13", "pycoin/coins/bitcoin/Tx.py", "            elif ignore_missing:\n                unspents.append(None)", "            elif ignore_missing:\n                unspents.append(self.TxOut(0, b\"\"))"),
    ("C05-oneshot-reports-unsigned", "C05", "pycoin/coins/tx_utils.py", "        if not tx.is_solution_ok(idx):\n            raise SecretExponentMissing(", "        if idx > 0 and not tx.is_solution_ok(idx):\n            raise SecretExponentMissing("),
    ("C15-load-nodes-loses-consumed-on-error", "C15", "pycoin/blockchain/ChainFinder.py", "        finally:\n            # if the iterator raises, what it yielded so far is registered: place it too,\n            # or it would be skipped as already known whenever it is sent again\n            if new_hashes:", "        finally:\n            pass\n        if True:\n            if new_hashes:"),
    ("C15-lock-commits-before-persist", "C15", "pycoin/blockchain/BlockChain.py", '            newly_locked.append(item)\n            excluded.add(the_hash)\n        if self.did_lock_to_index_f:\n            # hand the entries over before touching any state: if storing them fails,\n            # the lock has not happened\n            self.did_lock_to_index_f(newly_locked, old_length)\n        self._locked_chain.extend(newly_locked)\n', '            newly_locked.append(item)\n            self._locked_chain.append(item)\n            excluded.add(the_hash)\n        if self.did_lock_to_index_f:\n            self.did_lock_to_index_f(newly_locked, old_length)\n'),
    ("C13-fee-ignored-in-allocation", "C13", "pycoin/coins/tx_utils.py", "coins_allocated = sum(tx_out.coin_value for tx_out in tx.txs_out) + fee", "coins_allocated = sum(tx_out.coin_value for tx_out in tx.txs_out)"),
    ("C14-odd-level-duplicates-first", "C14", "pycoin/merkle.py", "hashes.append(hashes[-1])", "hashes.append(hashes[0])"),
    ("C14-extra-hashes-check-removed", "C14", "pycoin/message/make_parser_and_packer.py", "    if len(hashes) > 0:\n        raise ValueError(\"extra hashes", "    if False:\n        raise ValueError(\"extra hashes"),
    ("C14-padding-check-removed", "C14", "pycoin/message/make_parser_and_packer.py", "if flags[idx] > (1 << (r + 1)) - 1:", "if False:"),
    ("C14-block-hash-cached-forever", "C14", "pycoin/block.py", '        if not hasattr(self, "__hash"):\n            self.__hash = self._calculate_hash()', '        if not hasattr(self, "_Block__hash"):\n            self.__hash = self._calculate_hash()'),
    ("C14-merkle-check-disabled", "C14", "pycoin/block.py", "if calculated_hash != self.merkle_root:", "if calculated_hash != self.merkle_root and len(self.txs) == 1:"),
    ("C15-longest-not-heaviest", "C15", "pycoin/blockchain/BlockChain.py", "weight = sum(self.weight_lookup.get(h, 0) for h in chain)", "weight = len(chain)"),
    ("C15-index-not-removed", "C15", "pycoin/blockchain/BlockChain.py", "            del self.hash_to_index_lookup[h]", "            pass"),
    ("C15-lock-cache-unfixed", "C15", "pycoin/blockchain/BlockChain.py", "self._longest_chain_cache = longest_chain[:-index]", "self._longest_chain_cache = None"),
    ("C15-locked-duplicate-unfixed", "C15", "pycoin/blockchain/BlockChain.py", "                    # a duplicate of a locked header: already part of the chain for good\n                    continue", "                    pass"),
    ("C15-adopts-only-at-bottom", "C15", "pycoin/blockchain/ChainFinder.py", "for i, node in enumerate(path[:-1]):", "for i, node in enumerate(path[:1]):"),
    ("C15-preload-index-off-by-one", "C15", "pycoin/blockchain/BlockChain.py", "            self.hash_to_index_lookup[the_hash] = idx\n", "            self.hash_to_index_lookup[the_hash] = idx + 1\n"),
    ("C15-lock-callback-old-length", "C15", "pycoin/blockchain/BlockChain.py", "self.did_lock_to_index_f(newly_locked, old_length)", "self.did_lock_to_index_f(newly_locked, 0)"),
    ("C19-native-not-probed", "C19", "pycoin/encoding/hash.py", '            ripemd160_native(b"").digest()\n', "            pass\n"),
    ("C19-pure-ripemd-padding-at-55", "C19", "pycoin/contrib/ripemd160.py", "((119 - len(data)) & 63)", "((119 - len(data)) & 63 or 64)"),
    ("C19-murmur-tail-swapped", "C19", "pycoin/bloomfilter.py", "k1 = (data[roundedEnd + 2] & 0xFF) << 16", "k1 = (data[roundedEnd + 2] & 0xFF) << 8"),
    ("C19-bloom-seed-xor-tweak", "C19", "pycoin/bloomfilter.py", "seed = hash_index * 0xFBA4C795 + self.tweak", "seed = hash_index * 0xFBA4C795 ^ self.tweak"),
    ("C19-murmur-seed-not-reduced-at-end", "C19", "pycoin/bloomfilter.py", "    h1 ^= length\n", "    h1 ^= length + (seed >> 32)\n"),
]


def _scratch_base():
    for d in ("/dev/shm", os.environ.get("XDG_RUNTIME_DIR") or ""):
        if d and os.path.isdir(d) and os.access(d, os.W_OK):
            return d
    raise RuntimeError("no scratch location outside /repo, /verif and /tmp")


def _make_copy(tag):
    base = os.path.join(_scratch_base(), "verif-mut-%d-%s" % (os.getpid(), tag))
    if os.path.exists(base):
        shutil.rmtree(base)
    os.makedirs(base)
    repo = os.environ.get("VERIF_REPO_SRC", "/repo")
    shutil.copytree(os.path.join(repo, "pycoin"), os.path.join(base, "pycoin"))
    data = os.path.join(repo, "tests", "btc", "data")
    if os.path.isdir(data):
        shutil.copytree(data, os.path.join(base, "tests", "btc", "data"))
    return base


def _run_check(base, prop, budget, workers, tier):
    env = dict(os.environ)
    env["VERIF_REPO"] = base
    env["VERIF_OUT_DIR"] = os.path.join(base, "_out")
    os.makedirs(env["VERIF_OUT_DIR"], exist_ok=True)
    cmd = [os.path.join(ROOT, "vcheck"), "check", prop, "--tier", tier, "--workers", str(workers), "--det-runs", "2"]
    if budget:
        cmd += ["--budget", str(budget)]
    t0 = time.time()
    p = subprocess.run(cmd, env=env, capture_output=True, text=True, timeout=3600)
    viol = [l for l in p.stdout.splitlines() if l.startswith("VIOLATION")]
    cls = [l.strip() for l in p.stdout.splitlines() if l.strip().startswith("class=")]
    return p.returncode, viol, cls, time.time() - t0, p.stdout[-1500:]


def _one(entry, budget, workers, tier):
    mid, prop, path, old, new = entry[:5]
    base = _make_copy(mid)
    try:
        fp = os.path.join(base, path)
        src = open(fp).read()
        if old not in src:
            return {"id": mid, "property": prop, "status": "NOT-APPLICABLE (source text not found)"}
        open(fp, "w").write(src.replace(old, new, 1))
        rc, viol, cls, wall, tail = _run_check(base, prop, budget, workers, tier)
        status = "killed" if rc == 1 and viol else ("harness-error" if rc == 2 else "SURVIVED")
        return {"id": mid, "property": prop, "status": status, "rc": rc, "wall_s": round(wall, 1),
                "class": sorted({c.split()[0] for c in cls})[:4], "tail": tail if status != "killed" else ""}
    finally:
        shutil.rmtree(base, ignore_errors=True)


def _seeded(budget, workers, tier, names=None):
    out = []
    sd = os.path.join(ROOT, "seeded")
    if not os.path.isdir(sd):
        return out
    for name in sorted(os.listdir(sd)):
        if names and name not in names:
            continue
        d = os.path.join(sd, name)
        patch = os.path.join(d, "patch.diff")
        meta = os.path.join(d, "meta.json")
        if not os.path.exists(patch) or not os.path.exists(meta):
            continue
        prop = json.load(open(meta))["property"]
        base = _make_copy("seeded-" + name)
        try:
            p = subprocess.run(["patch", "-p1", "-d", base, "-i", patch], capture_output=True, text=True)
            if p.returncode != 0:
                out.append({"id": "seeded/" + name, "property": prop, "status": "PATCH-FAILED", "tail": p.stdout[-400:] + p.stderr[-400:]})
                continue
            rc, viol, cls, wall, tail = _run_check(base, prop, budget, workers, tier)
            status = "killed" if rc == 1 and viol else ("harness-error" if rc == 2 else "SURVIVED")
            out.append({"id": "seeded/" + name, "property": prop, "status": status, "rc": rc, "wall_s": round(wall, 1),
                        "class": sorted({c.split()[0] for c in cls})[:4], "tail": tail if status != "killed" else ""})
        finally:
            shutil.rmtree(base, ignore_errors=True)
    return out


def main(a):
    only = a.only.split(",") if a.only else None
    entries = [e for e in M if not only or e[0] in only or e[1] in only]
    par = 4
    workers = 4
    results = []
    t0 = time.time()
    with cf.ThreadPoolExecutor(max_workers=par) as ex:
        futs = [ex.submit(_one, e, a.budget, workers, a.tier) for e in entries]
        for f in futs:
            r = f.result()
            results.append(r)
            print("%-48s %-4s %-14s %6ss %s" % (r["id"], r["property"], r["status"], r.get("wall_s", "-"), ",".join(r.get("class", []))), flush=True)
            if r["status"] not in ("killed",) and r.get("tail"):
                print("    " + r["tail"].replace("\n", "\n    ")[-600:])
    if a.seeded or (only and any(o.startswith("seeded") for o in only)):
        names = set(o.split("/", 1)[1] for o in (only or []) if o.startswith("seeded/")) or None
        for r in _seeded(a.budget, 16, a.tier, names):
            results.append(r)
            print("%-48s %-4s %-14s %6ss %s" % (r["id"], r["property"], r["status"], r.get("wall_s", "-"), ",".join(r.get("class", []))), flush=True)
    by = {}
    for r in results:
        by.setdefault(r["property"], []).append(r["status"] == "killed")
    print("kill table: " + ", ".join("%s %d/%d" % (p, sum(v), len(v)) for p, v in sorted(by.items())))
    out = os.path.join(ROOT, "selftest_mutants.json")
    if only:
        # a partial run updates the entries it re-ran and keeps the rest of the table
        try:
            prev = json.load(open(out))["results"]
        except Exception:
            prev = []
        done = {r["id"] for r in results}
        results = [r for r in prev if r["id"] not in done] + results
    json.dump({"wall_s": round(time.time() - t0, 1), "tier": a.tier, "budget": a.budget, "results": results}, open(out, "w"), indent=1)
    weak = [p for p, v in by.items() if sum(v) < 2 and len(v) >= 2]
    if weak:
        print("SELFTEST-FAIL fewer than two mutants killed for: %s" % ", ".join(sorted(weak)))
        return 1
    return 0
