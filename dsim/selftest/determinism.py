def main(a):
    print("not built yet")
    return 2
