"""Determinism self-test: the same (VERIF_SEED, world, index) must give the same plan and the same
event-log digest in a fresh interpreter, under another PYTHONHASHSEED, and inside the fork pool.

A mismatch is a harness error (exit 2), never a property violation.
"""
import concurrent.futures as cf
import hashlib
import multiprocessing
import os
import subprocess
import sys

WORLDS = ["chain", "ec", "hd", "spv", "hashcfg", "wallet", "cosign"]
# configurations whose event log legitimately depends on PYTHONHASHSEED (real 32-byte ids in hash sets)
HASHSEED_DEPENDENT = {("chain", "B-block")}


def _digest_range(args):
    world_name, seed, tier, start, n = args
    from dsim.kernel import runner
    from dsim.kernel.core import jdump
    w = runner.load_world(world_name)
    out = []
    for i in range(start, start + n):
        plan, ctx = runner.one_run(w, seed, tier, i)
        cfg = plan.get("config")
        cname = cfg if isinstance(cfg, str) else (cfg or {}).get("name", "-")
        ph = hashlib.sha256(jdump(plan).encode()).hexdigest()[:16]
        out.append("%d %s %s %s %d" % (i, cname, ph, ctx.digest()[:24], len(ctx.violations)))
    return out


def emit(world_name, seed, tier, start, n, workers):
    if workers <= 1:
        lines = _digest_range((world_name, seed, tier, start, n))
    else:
        chunk = max(1, n // (workers * 2))
        jobs = [(world_name, seed, tier, s, min(chunk, start + n - s)) for s in range(start, start + n, chunk)]
        with cf.ProcessPoolExecutor(max_workers=workers, mp_context=multiprocessing.get_context("fork")) as ex:
            lines = []
            for part in ex.map(_digest_range, jobs):
                lines.extend(part)
    for l in lines:
        print(l)


def _spawn(world, seed, tier, start, n, workers, hashseed):
    env = dict(os.environ)
    env["PYTHONHASHSEED"] = str(hashseed)
    cmd = [sys.executable, "-m", "dsim.selftest.determinism", "--emit", world, str(seed), tier, str(start), str(n), str(workers)]
    p = subprocess.run(cmd, env=env, capture_output=True, text=True, timeout=1800)
    if p.returncode != 0:
        raise RuntimeError("emit failed for %s: %s" % (world, p.stderr[-2000:]))
    return [l for l in p.stdout.splitlines() if l and l[0].isdigit()]


def main(a):
    seeds = a.seeds
    worlds = a.worlds.split(",") if a.worlds else WORLDS
    seed = int(os.environ.get("VERIF_SEED", 1))
    bad = 0
    total = 0
    for w in worlds:
        n = seeds if w not in ("ec", "cosign") else max(20, seeds // 5)
        base = _spawn(w, seed, a.tier, 0, n, 1, 0)
        again = _spawn(w, seed, a.tier, 0, n, 1, 0)
        other = _spawn(w, seed, a.tier, 0, n, 1, 12345)
        pool = _spawn(w, seed, a.tier, 0, n, 16, 0)
        total += len(base)
        for name, lines in (("second fresh interpreter", again), ("fork pool of 16", pool)):
            if lines != base:
                diff = [(x, y) for x, y in zip(base, lines) if x != y][:3]
                print("NONDETERMINISTIC world=%s vs %s: %s" % (w, name, diff))
                bad += 1
        skipped = 0
        for x, y in zip(base, other):
            cname = x.split()[1]
            if (w, cname) in HASHSEED_DEPENDENT:
                skipped += 1
                continue
            if x != y:
                print("NONDETERMINISTIC world=%s under PYTHONHASHSEED=12345: %s | %s" % (w, x, y))
                bad += 1
                break
        print("world=%s runs=%d identical across: fresh interpreter x2, PYTHONHASHSEED 0 vs 12345 (%d hash-seed dependent "
              "config runs skipped), serial vs 16-process pool" % (w, len(base), skipped), flush=True)
    if bad:
        print("HARNESS-ERROR determinism self-test failed (%d mismatches)" % bad)
        return 2
    print("determinism self-test ok: %d runs per configuration" % total)
    return 0


if __name__ == "__main__":
    if len(sys.argv) > 1 and sys.argv[1] == "--emit":
        _, _, world, seed, tier, start, n, workers = sys.argv
        emit(world, int(seed), tier, int(start), int(n), int(workers))
