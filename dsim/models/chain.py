"""Reference model for C15: the delivered-header forest and its heaviest chains.

State: anchor label, delivered {label: (parent, weight)}, locked prefix [labels].
The only question it answers: what is the maximum total weight of a parent-linked chain that
starts at the child of the current tip (last locked label, or the anchor) — and is a given
reported chain such a chain?
"""


class ChainModel(object):
    def __init__(self, anchor):
        self.anchor = anchor
        self.delivered = {}   # label -> (parent, weight)
        self.children = {}    # parent label -> [labels] in first-delivery order
        self.locked = []

    def tip(self):
        return self.locked[-1] if self.locked else self.anchor

    def deliver(self, label, parent, weight):
        """returns True if new"""
        if label in self.delivered:
            return False
        self.delivered[label] = (parent, weight)
        self.children.setdefault(parent, []).append(label)
        return True

    def best_below(self, root):
        """max over chains c1..ck (k>=0) with parent(c1)=root of sum of weights; also the number
        of distinct maximal-weight chains capped at 2 (tie detection) and max length among them"""
        # iterative post-order
        best = {}
        ways = {}
        stack = [(root, 0)]
        order = []
        seen = set()
        while stack:
            node, _ = stack.pop()
            if node in seen:
                continue
            seen.add(node)
            order.append(node)
            for c in self.children.get(node, ()):  # children are delivered by construction
                stack.append((c, 0))
        for node in reversed(order):
            b = 0
            w = 1  # the empty continuation
            for c in self.children.get(node, ()):
                v = self.delivered[c][1] + best[c]
                if v > b:
                    b = v
                    w = ways[c]
                elif v == b:
                    w = min(2, w + ways[c])
            best[node] = b
            ways[node] = w
        return best[root], ways[root]

    def check_chain(self, chain):
        """chain: full reported chain (locked + unlocked labels).  Returns None if it is a valid
        maximum-weight chain extending the locked prefix, else (class, detail)."""
        n = len(self.locked)
        if chain[:n] != self.locked:
            return ("locked-prefix-changed", {"locked": self.locked, "reported": chain[: n + 2]})
        prev = self.tip()
        total = 0
        seen = set(self.locked)
        for h in chain[n:]:
            if h not in self.delivered:
                return ("not-delivered", {"hash": h})
            if h in seen:
                return ("repeated-hash", {"hash": h})
            seen.add(h)
            p, w = self.delivered[h]
            if p != prev:
                return ("not-linked", {"hash": h, "parent": p, "expected_parent": prev})
            total += w
            prev = h
        best, ways = self.best_below(self.tip())
        if total != best:
            return ("not-heaviest", {"reported": chain[n:], "reported_weight": total, "model_max": best})
        return None

    def lock(self, prefix):
        """prefix: new full locked list as reported by the SUT; validity is checked by the caller"""
        self.locked = list(prefix)
