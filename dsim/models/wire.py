"""Reference model of the Bitcoin wire format: compact size, transactions (legacy / BIP144),
block headers and blocks; written from the protocol documentation and BIP144.

Model transaction:
  {"version": int, "ins": [{"prev": bytes32, "idx": int, "script": bytes, "seq": int, "witness": [bytes,...]}],
   "outs": [{"value": int, "script": bytes}], "locktime": int}
"""
import hashlib
import struct


class WireError(Exception):
    pass


def dsha256(b):
    return hashlib.sha256(hashlib.sha256(b).digest()).digest()


def compact(n):
    if n < 0xFD:
        return bytes([n])
    if n <= 0xFFFF:
        return b"\xfd" + struct.pack("<H", n)
    if n <= 0xFFFFFFFF:
        return b"\xfe" + struct.pack("<I", n)
    return b"\xff" + struct.pack("<Q", n)


class Reader(object):
    def __init__(self, b):
        self.b = b
        self.i = 0

    def take(self, n):
        if self.i + n > len(self.b):
            raise WireError("truncated")
        v = self.b[self.i:self.i + n]
        self.i += n
        return v

    def u32(self):
        return struct.unpack("<I", self.take(4))[0]

    def u64(self):
        return struct.unpack("<Q", self.take(8))[0]

    def compact(self):
        c = self.take(1)[0]
        if c < 0xFD:
            return c
        if c == 0xFD:
            return struct.unpack("<H", self.take(2))[0]
        if c == 0xFE:
            return struct.unpack("<I", self.take(4))[0]
        return struct.unpack("<Q", self.take(8))[0]

    def varbytes(self):
        return self.take(self.compact())

    def done(self):
        return self.i == len(self.b)


def has_witness(tx):
    return any(len(i.get("witness") or []) > 0 for i in tx["ins"])


def enc_tx(tx, witness=True):
    """BIP144 extended form iff witness is requested and some witness stack is non-empty"""
    w = witness and has_witness(tx)
    out = [struct.pack("<I", tx["version"] & 0xFFFFFFFF)]
    if w:
        out.append(b"\x00\x01")
    out.append(compact(len(tx["ins"])))
    for i in tx["ins"]:
        out.append(i["prev"])
        out.append(struct.pack("<I", i["idx"]))
        out.append(compact(len(i["script"])))
        out.append(i["script"])
        out.append(struct.pack("<I", i["seq"]))
    out.append(compact(len(tx["outs"])))
    for o in tx["outs"]:
        out.append(struct.pack("<Q", o["value"]))
        out.append(compact(len(o["script"])))
        out.append(o["script"])
    if w:
        for i in tx["ins"]:
            st = i.get("witness") or []
            out.append(compact(len(st)))
            for item in st:
                out.append(compact(len(item)))
                out.append(item)
    out.append(struct.pack("<I", tx["locktime"]))
    return b"".join(out)


def dec_tx_from(r):
    version = r.u32()
    n = r.compact()
    segwit = False
    if n == 0:
        flag = r.take(1)[0]
        if flag != 1:
            raise WireError("bad segwit flag")
        segwit = True
        n = r.compact()
    ins = []
    for _ in range(n):
        prev = r.take(32)
        idx = r.u32()
        script = r.varbytes()
        seq = r.u32()
        ins.append({"prev": prev, "idx": idx, "script": script, "seq": seq, "witness": []})
    outs = []
    for _ in range(r.compact()):
        value = r.u64()
        outs.append({"value": value, "script": r.varbytes()})
    if segwit:
        for i in ins:
            i["witness"] = [r.varbytes() for _ in range(r.compact())]
    locktime = r.u32()
    return {"version": version, "ins": ins, "outs": outs, "locktime": locktime}


def dec_tx(b):
    r = Reader(b)
    tx = dec_tx_from(r)
    if not r.done():
        raise WireError("trailing bytes")
    return tx


def txid(tx):
    """internal byte order"""
    return dsha256(enc_tx(tx, witness=False))


def wtxid(tx):
    return dsha256(enc_tx(tx, witness=True))


def txid_hex(tx):
    return txid(tx)[::-1].hex()


def enc_header(h):
    """h: {"version", "prev": bytes32, "merkle": bytes32, "time", "bits", "nonce"}"""
    return (struct.pack("<I", h["version"]) + h["prev"] + h["merkle"]
            + struct.pack("<III", h["time"], h["bits"], h["nonce"]))


def dec_header_from(r):
    version = r.u32()
    prev = r.take(32)
    merkle = r.take(32)
    t, bits, nonce = r.u32(), r.u32(), r.u32()
    return {"version": version, "prev": prev, "merkle": merkle, "time": t, "bits": bits, "nonce": nonce}


def block_hash(h):
    return dsha256(enc_header(h))


def enc_block(h, txs):
    return enc_header(h) + compact(len(txs)) + b"".join(enc_tx(t) for t in txs)


def tx_from_pycoin(tx):
    """read a pycoin Tx object's fields into a model transaction (field access only)"""
    return {"version": tx.version,
            "ins": [{"prev": bytes(i.previous_hash), "idx": i.previous_index, "script": bytes(i.script),
                     "seq": i.sequence, "witness": [bytes(w) for w in i.witness]} for i in tx.txs_in],
            "outs": [{"value": o.coin_value, "script": bytes(o.script)} for o in tx.txs_out],
            "locktime": tx.lock_time}


def kat():
    assert compact(0) == b"\x00" and compact(0xFC) == b"\xfc" and compact(0xFD) == b"\xfd\xfd\x00"
    assert compact(0xFFFF) == b"\xfd\xff\xff" and compact(0x10000) == b"\xfe\x00\x00\x01\x00"
    assert compact(0x100000000) == b"\xff\x00\x00\x00\x00\x01\x00\x00\x00"
    # the genesis block's coinbase transaction and header
    cb = bytes.fromhex(
        "01000000010000000000000000000000000000000000000000000000000000000000000000ffffffff4d04ffff001d0104455468652054696d65"
        "732030332f4a616e2f32303039204368616e63656c6c6f72206f6e206272696e6b206f66207365636f6e64206261696c6f757420666f7220"
        "62616e6b73ffffffff0100f2052a01000000434104678afdb0fe5548271967f1a67130b7105cd6a828e03909a67962e0ea1f61deb649f6bc"
        "3f4cef38c4f35504e51ec112de5c384df7ba0b8d578a4c702b6bf11d5fac00000000")
    tx = dec_tx(cb)
    assert enc_tx(tx) == cb and txid_hex(tx) == "4a5e1e4baab89f3a32518a88c31bc87f618f76673e2cc77ab2127b7afdeda33b"
    hdr = {"version": 1, "prev": b"\0" * 32, "merkle": txid(tx), "time": 1231006505, "bits": 0x1d00ffff, "nonce": 2083236893}
    assert block_hash(hdr)[::-1].hex() == "000000000019d6689c085ae165831e934ff763ae46a2a6c172b3f1b60a8ce26f"
    # BIP143 example: native P2WPKH signed transaction (has witness); txid excludes witness
    seg = bytes.fromhex(
        "01000000000102fff7f7881a8099afa6940d42d1e7f6362bec38171ea3edf433541db4e4ad969f00000000494830450221008b9d1dc26ba6a9cb"
        "62127b02742fa9d754cd3bebf337f7a55d114c8e5cdd30be022040529b194ba3f9281a99f2b1c0a19c0489bc22ede944ccf4ecbab4cc618ef3ed"
        "01eeffffffef51e1b804cc89d182d279655c3aa89e815b1b309fe287d9b2b55d57b90ec68a0100000000ffffffff02202cb206000000001976a9"
        "148280b37df378db99f66f85c95a783a76ac7a6d5988ac9093510d000000001976a9143bde42dbee7e4dbe6a21b2d50ce2f0167faa815988ac00"
        "0247304402203609e17b84f6a7d30c80bfa610b5b4542f32a8a0d5447a12fb1366d7f01cc44a0220573a954c4518331561406f90300e8f3358f5"
        "1928d43c212a8caed02de67eebee0121025476c2e83188368da1ff3e292e7acafcdb3566bb0ad253f62fc70f07aeee635711000000")
    t2 = dec_tx(seg)
    assert enc_tx(t2) == seg and len(t2["ins"]) == 2 and t2["ins"][0]["witness"] == [] and len(t2["ins"][1]["witness"]) == 2
    assert enc_tx(t2, witness=False) != seg and dec_tx(enc_tx(t2, witness=False))["ins"][1]["witness"] == []
    assert txid(t2) != wtxid(t2)
