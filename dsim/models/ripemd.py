"""Reference model: RIPEMD-160.

Written from the Dobbertin / Bosselaers / Preneel specification
("RIPEMD-160: A Strengthened Version of RIPEMD", 1996): two parallel lines
(left / right) of 5 rounds x 16 steps each, little-endian word order, MD-style
padding (0x80, zeros, 64-bit little-endian bit length).

Independent oracle: nothing here is derived from the library under test.
"""

import struct

_M = 0xFFFFFFFF

# Message word selection, left line r(j) and right line r'(j), j = 0..79.
_RL = (
    0, 1, 2, 3, 4, 5, 6, 7, 8, 9, 10, 11, 12, 13, 14, 15,
    7, 4, 13, 1, 10, 6, 15, 3, 12, 0, 9, 5, 2, 14, 11, 8,
    3, 10, 14, 4, 9, 15, 8, 1, 2, 7, 0, 6, 13, 11, 5, 12,
    1, 9, 11, 10, 0, 8, 12, 4, 13, 3, 7, 15, 14, 5, 6, 2,
    4, 0, 5, 9, 7, 12, 2, 10, 14, 1, 3, 8, 11, 6, 15, 13,
)
_RR = (
    5, 14, 7, 0, 9, 2, 11, 4, 13, 6, 15, 8, 1, 10, 3, 12,
    6, 11, 3, 7, 0, 13, 5, 10, 14, 15, 8, 12, 4, 9, 1, 2,
    15, 5, 1, 3, 7, 14, 6, 9, 11, 8, 12, 2, 10, 0, 4, 13,
    8, 6, 4, 1, 3, 11, 15, 0, 5, 12, 2, 13, 9, 7, 10, 14,
    12, 15, 10, 4, 1, 5, 8, 7, 6, 2, 13, 14, 0, 3, 9, 11,
)

# Rotation amounts, left line s(j) and right line s'(j).
_SL = (
    11, 14, 15, 12, 5, 8, 7, 9, 11, 13, 14, 15, 6, 7, 9, 8,
    7, 6, 8, 13, 11, 9, 7, 15, 7, 12, 15, 9, 11, 7, 13, 12,
    11, 13, 6, 7, 14, 9, 13, 15, 14, 8, 13, 6, 5, 12, 7, 5,
    11, 12, 14, 15, 14, 15, 9, 8, 9, 14, 5, 6, 8, 6, 5, 12,
    9, 15, 5, 11, 6, 8, 13, 12, 5, 12, 13, 14, 11, 8, 5, 6,
)
_SR = (
    8, 9, 9, 11, 13, 15, 15, 5, 7, 7, 8, 11, 14, 14, 12, 6,
    9, 13, 15, 7, 12, 8, 9, 11, 7, 7, 12, 7, 6, 15, 13, 11,
    9, 7, 15, 11, 8, 6, 6, 14, 12, 13, 5, 14, 13, 13, 7, 5,
    15, 5, 8, 11, 14, 14, 6, 14, 6, 9, 12, 9, 12, 5, 15, 8,
    8, 5, 12, 9, 12, 5, 14, 6, 8, 13, 6, 5, 15, 13, 11, 11,
)

# Added constants per round.
_KL = (0x00000000, 0x5A827999, 0x6ED9EBA1, 0x8F1BBCDC, 0xA953FD4E)
_KR = (0x50A28BE6, 0x5C4DD124, 0x6D703EF3, 0x7A6D76E9, 0x00000000)

_IV = (0x67452301, 0xEFCDAB89, 0x98BADCFE, 0x10325476, 0xC3D2E1F0)


def _f(rnd, x, y, z):
    """Round function f for round index rnd (0..4), 32-bit result."""
    if rnd == 0:
        return x ^ y ^ z
    if rnd == 1:
        return (x & y) | ((x ^ _M) & z)
    if rnd == 2:
        return (x | (y ^ _M)) ^ z
    if rnd == 3:
        return (x & z) | (y & (z ^ _M))
    return x ^ (y | (z ^ _M))


def _compress(h, block):
    x = struct.unpack("<16I", block)
    M = _M
    f = _f

    al, bl, cl, dl, el = h
    ar, br, cr, dr, er = h

    for j in range(80):
        rnd = j >> 4
        # left line: f_rnd, K_rnd
        t = (al + f(rnd, bl, cl, dl) + x[_RL[j]] + _KL[rnd]) & M
        s = _SL[j]
        t = (((t << s) | (t >> (32 - s))) + el) & M
        al = el
        el = dl
        dl = ((cl << 10) | (cl >> 22)) & M
        cl = bl
        bl = t
        # right line: f_(4-rnd), K'_rnd
        t = (ar + f(4 - rnd, br, cr, dr) + x[_RR[j]] + _KR[rnd]) & M
        s = _SR[j]
        t = (((t << s) | (t >> (32 - s))) + er) & M
        ar = er
        er = dr
        dr = ((cr << 10) | (cr >> 22)) & M
        cr = br
        br = t

    t = (h[1] + cl + dr) & M
    return (
        t,
        (h[2] + dl + er) & M,
        (h[3] + el + ar) & M,
        (h[4] + al + br) & M,
        (h[0] + bl + cr) & M,
    )


def ripemd160(data: bytes) -> bytes:
    """RIPEMD-160 digest (20 bytes) of `data`."""
    data = bytes(data)
    n = len(data)
    pad = b"\x80" + b"\x00" * ((55 - n) % 64)
    msg = data + pad + struct.pack("<Q", (n * 8) & 0xFFFFFFFFFFFFFFFF)
    assert len(msg) % 64 == 0
    h = _IV
    for off in range(0, len(msg), 64):
        h = _compress(h, msg[off:off + 64])
    return struct.pack("<5I", *h)


_VECTORS = (
    (b"", "9c1185a5c5e9fc54612808977ee8f548b2258d31"),
    (b"a", "0bdc9d2d256b3ee9daae347be6f4dc835a467ffe"),
    (b"abc", "8eb208f7e05d987a9b044a8e98c6b087f15a0bfc"),
    (b"message digest", "5d0689ef49d2fae572b881b123a85ffa21595f36"),
    (b"abcdefghijklmnopqrstuvwxyz", "f71c27109c692c1b56bbdceb5b9d2865b3708dbc"),
    (b"abcdbcdecdefdefgefghfghighijhijkijkljklmklmnlmnomnopnopq",
     "12a053384a9c0c88e405a06c27dcf49ada62eb2b"),
    (b"ABCDEFGHIJKLMNOPQRSTUVWXYZabcdefghijklmnopqrstuvwxyz0123456789",
     "b0e20b6e3116640286ed3a87a5713079b21f5189"),
    (b"1234567890" * 8, "9b752e45573d4b39f4dbd3323cab82bf63326bfb"),
)

_MILLION_A = "52783243c1697bdbe16d37f97f68f08325dc1528"


def kat():
    """Known-answer tests from the RIPEMD-160 specification (fast subset)."""
    for msg, want in _VECTORS:
        got = ripemd160(msg).hex()
        assert got == want, ("ripemd160 KAT", msg, got, want)

    # Cross-check against OpenSSL's implementation when it is available.
    import hashlib
    try:
        hashlib.new("ripemd160")
        have = True
    except Exception:
        have = False
    if have:
        for n in range(201):
            msg = bytes((i * 131 + 7 * n + 3) & 0xFF for i in range(n))
            want = hashlib.new("ripemd160", msg).digest()
            got = ripemd160(msg)
            assert got == want, ("ripemd160 vs hashlib", n, got.hex(), want.hex())
    return True


def kat_slow():
    """The one-million-'a' vector (takes a few seconds in pure Python)."""
    got = ripemd160(b"a" * 1000000).hex()
    assert got == _MILLION_A, ("ripemd160 million-a", got, _MILLION_A)
    return True
