"""Validity of an input spending one of the eight standard puzzle kinds under the full standard
policy flag set, decided structurally.  This is NOT a script interpreter.

Under P2SH + STRICTENC + DERSIG + LOW_S + NULLDUMMY + SIGPUSHONLY + MINIMALDATA + CLEANSTACK +
WITNESS + NULLFAIL + WITNESS_PUBKEYTYPE the unlocking data accepted for each standard puzzle is
exactly: the canonical minimal pushes of the canonical items, with every signature valid for its
key (in key order for multisig).  The model classifies the locking script by its bytes, parses the
unlocking data, and verifies each signature with models/ec.py against models/sighash.py.

coin = {"sig": "btc" | "bch" | "btg" | "grs"} (grs: Groestlcoin, single SHA256 digests); for fork-id coins STRICTENC is off (the statement's carve-out):
hash types are not required to be "defined", but must carry the fork-id bit, and digests are BIP143.
"""
import hashlib

from . import ec as mec
from . import sighash as sh
from .ripemd import ripemd160

C = mec.SECP256K1
HALF_N = C.n // 2


def hash160(b):
    return ripemd160(hashlib.sha256(b).digest())


class Verdict(object):
    __slots__ = ("valid", "why", "signed", "kind")

    def __init__(self, valid, why, signed=(), kind=None):
        self.valid, self.why, self.signed, self.kind = valid, why, tuple(signed), kind

    def __repr__(self):
        return "Verdict(%s, %s, signed=%s, kind=%s)" % (self.valid, self.why, list(self.signed), self.kind)


# -- script construction (the model builds every puzzle itself) -----------------------------------

def small_int(n):
    """script number push for 0..20"""
    if n == 0:
        return b"\x00"
    if 1 <= n <= 16:
        return bytes([0x50 + n])
    return bytes([1, n])


def multisig_script(m, secs):
    return small_int(m) + b"".join(sh.push(s) for s in secs) + small_int(len(secs)) + b"\xae"


def p2pk(sec):
    return sh.push(sec) + b"\xac"


def p2pkh(h):
    return b"\x76\xa9\x14" + h + b"\x88\xac"


def p2sh(script):
    return b"\xa9\x14" + hash160(script) + b"\x87"


def p2wpkh(h):
    return b"\x00\x14" + h


def p2wsh(script):
    return b"\x00\x20" + hashlib.sha256(script).digest()


# -- classification by bytes ----------------------------------------------------------------------

def classify(script):
    """-> (kind, params) for the templates the simulated parties use, else (None, None)"""
    n = len(script)
    if n == 25 and script[:3] == b"\x76\xa9\x14" and script[23:] == b"\x88\xac":
        return "p2pkh", script[3:23]
    if n == 23 and script[:2] == b"\xa9\x14" and script[22:] == b"\x87":
        return "p2sh", script[2:22]
    if n == 22 and script[:2] == b"\x00\x14":
        return "p2wpkh", script[2:]
    if n == 34 and script[:2] == b"\x00\x20":
        return "p2wsh", script[2:]
    if n in (35, 67) and script[0] == n - 2 and script[-1] == 0xAC:
        return "p2pk", script[1:-1]
    ms = parse_multisig(script)
    if ms is not None:
        return "multisig", ms
    return None, None


def _num(op, data):
    if op == 0:
        return 0
    if 0x51 <= op <= 0x60:
        return op - 0x50
    if op == 1 and data is not None and len(data) == 1 and 17 <= data[0] <= 20:
        return data[0]
    return None


def parse_multisig(script):
    try:
        ops = list(sh.script_ops(script))
    except sh.BadScript:
        return None
    if len(ops) < 4 or ops[-1][0] != 0xAE or ops[-1][1] is not None:
        return None
    m = _num(ops[0][0], ops[0][1])
    n = _num(ops[-2][0], ops[-2][1])
    if m is None or n is None or not (1 <= m <= n <= 20) or len(ops) != n + 3:
        return None
    secs = []
    for op, data, a, b in ops[1:-2]:
        if data is None or len(data) not in (33, 65) or op != len(data):
            return None
        secs.append(data)
    return m, secs


# -- unlocking data --------------------------------------------------------------------------------

def parse_push_only(script):
    """-> list of items if the script is push-only with minimal pushes, else a string reason"""
    items = []
    try:
        for op, data, a, b in sh.script_ops(script):
            if op > 0x60:
                return "non-push opcode"
            if op == 0x50:
                return "reserved opcode"
            if data is None:
                if op == 0x4F:
                    items.append(b"\x81")
                elif 0x51 <= op <= 0x60:
                    items.append(bytes([op - 0x50]))
                else:
                    return "bad opcode"
                continue
            if sh.push(data) != script[a:b]:
                return "non-minimal push"
            if len(data) > 520:
                return "push too large"
            items.append(data)
    except sh.BadScript:
        return "truncated push"
    return items


def strict_der(sig):
    """Bitcoin Core's IsValidSignatureEncoding on sig || hashtype; returns (r, s) or None"""
    n = len(sig)
    if n < 9 or n > 73 or sig[0] != 0x30 or sig[1] != n - 3:
        return None
    lr = sig[3]
    if 5 + lr >= n:
        return None
    ls = sig[5 + lr]
    if lr + ls + 7 != n:
        return None
    if sig[2] != 2 or lr == 0 or sig[4] & 0x80:
        return None
    if lr > 1 and sig[4] == 0 and not sig[5] & 0x80:
        return None
    if sig[lr + 4] != 2 or ls == 0 or sig[lr + 6] & 0x80:
        return None
    if ls > 1 and sig[lr + 6] == 0 and not sig[lr + 7] & 0x80:
        return None
    return int.from_bytes(sig[4:4 + lr], "big"), int.from_bytes(sig[6 + lr:6 + lr + ls], "big")


def sec_point(sec, require_compressed=False):
    """strict SEC decoding -> point or None"""
    if len(sec) == 33 and sec[0] in (2, 3):
        x = int.from_bytes(sec[1:], "big")
        if x >= C.p:
            return None
        pts = C.lift_x(x)
        return None if pts is None else pts[sec[0] & 1]
    if len(sec) == 65 and sec[0] == 4 and not require_compressed:
        P = (int.from_bytes(sec[1:33], "big"), int.from_bytes(sec[33:], "big"))
        return P if C.on_curve(P) else None
    return None


class Validator(object):
    def __init__(self, coin, strict=True):
        """strict=False: the verdict under pycoin's default flags (P2SH + WITNESS) for unlocking data that is
        canonical except for hash-type bytes: any hash-type byte is accepted, the digest is the one that byte defines"""
        self.coin = coin
        self.strict = strict
        self.forkid = coin["sig"] in ("bch", "btg")
        self.cache = {}
        self.digests = []   # (idx, hash_type, sigversion, digest) computed while judging: for C04 cross-checks

    def digest(self, tx, idx, script_code, value, ht, witness):
        if self.forkid:
            if not ht & sh.FORKID:
                return None
            d = sh.bip143(tx, idx, script_code, value, ht, forkid=79 if self.coin["sig"] == "btg" else None)
        elif witness:
            d = sh.bip143(tx, idx, script_code, value, ht, single_sha=self.coin["sig"] == "grs")
        else:
            d = sh.legacy(tx, idx, script_code, ht, single_sha=self.coin["sig"] == "grs")
        self.digests.append((idx, ht, witness, d))
        return d

    def sig_ok(self, tx, idx, sig, sec, script_code, value, witness):
        """is `sig` (with hash-type byte) a standard-valid signature by key `sec` for this input?"""
        if not sig:
            return False
        rs = strict_der(sig)
        if rs is None:
            return False
        ht = sig[-1]
        if self.strict and not self.forkid and (ht & ~sh.ANYONECANPAY) not in (sh.ALL, sh.NONE, sh.SINGLE):
            return False
        r, s = rs
        if s > HALF_N:
            return False
        Q = sec_point(sec, require_compressed=witness)
        if Q is None:
            return False
        sc = script_code if (witness or self.forkid) else sh.find_and_delete(script_code, sig)
        z = self.digest(tx, idx, sc, value, ht, witness)
        if z is None:
            return False
        key = (z, sec, r, s)
        v = self.cache.get(key)
        if v is None:
            v = self.cache[key] = C.verify(Q, z, r, s)
        return v

    def multisig(self, tx, idx, m, secs, sigs, script_code, value, witness):
        """CHECKMULTISIG under NULLFAIL: ordered matching of m signatures against the key list.
        returns (valid, set of key indexes whose valid signature is present)"""
        if witness and any(len(s) != 33 or s[0] not in (2, 3) for s in secs):
            # WITNESS_PUBKEYTYPE is checked on keys as they are examined; the simulated parties never
            # build such scripts, so simply refuse
            return False, set()
        signed = set()
        for sg in sigs:
            for k, sec in enumerate(secs):
                if k not in signed and self.sig_ok(tx, idx, sg, sec, script_code, value, witness):
                    signed.add(k)
                    break
        if len(sigs) != m:
            return False, signed
        # consensus walk from the last signature / last key
        i, k = len(sigs) - 1, len(secs) - 1
        ok = True
        while i >= 0:
            if i > k:
                ok = False
                break
            if self.sig_ok(tx, idx, sigs[i], secs[k], script_code, value, witness):
                i -= 1
            k -= 1
            if k < 0 and i >= 0:
                ok = False
                break
        return ok, signed

    # ---------------------------------------------------------------------------------------------
    def input(self, tx, idx, unspent):
        """unspent: {"value", "script"} or None -> Verdict"""
        if unspent is None:
            return Verdict(False, "unspent unknown")
        txin = tx["ins"][idx]
        spk = unspent["script"]
        value = unspent["value"]
        kind, par = classify(spk)
        if kind is None:
            return Verdict(None, "not a standard template")
        items = parse_push_only(txin["script"])
        wit = list(txin.get("witness") or [])
        if isinstance(items, str):
            return Verdict(False, "scriptSig: " + items, kind=kind)
        if kind in ("p2pk", "p2pkh", "multisig"):
            if wit:
                return Verdict(False, "unexpected witness", kind=kind)
            return self._bare(tx, idx, kind, par, items, spk, value, False, kind)
        if kind == "p2sh":
            if not items:
                return Verdict(False, "empty scriptSig for p2sh", kind="p2sh")
            redeem = items[-1]
            if hash160(redeem) != par:
                return Verdict(False, "redeem script hash mismatch", kind="p2sh")
            k2, p2 = classify(redeem)
            if k2 in ("p2wpkh", "p2wsh"):
                if len(items) != 1:
                    return Verdict(False, "scriptSig not just the redeem script for nested segwit", kind="p2sh-" + k2)
                return self._witness(tx, idx, k2, p2, wit, value, "p2sh-" + k2)
            if wit:
                return Verdict(False, "unexpected witness", kind="p2sh")
            if k2 in ("p2pk", "p2pkh", "multisig"):
                return self._bare(tx, idx, k2, p2, items[:-1], redeem, value, False, "p2sh-" + k2)
            return Verdict(None, "redeem script is not a standard template", kind="p2sh")
        # native segwit
        if items:
            return Verdict(False, "scriptSig not empty for native segwit", kind=kind)
        return self._witness(tx, idx, kind, par, wit, value, kind)

    def _bare(self, tx, idx, kind, par, items, script_code, value, witness, label):
        if kind == "p2pk":
            if len(items) != 1:
                return Verdict(False, "p2pk needs exactly one item", kind=label)
            ok = self.sig_ok(tx, idx, items[0], par, script_code, value, witness)
            return Verdict(ok, "signature", [0] if ok else [], kind=label)
        if kind == "p2pkh":
            if len(items) != 2:
                return Verdict(False, "p2pkh needs signature and key", kind=label)
            sig, sec = items
            if hash160(sec) != par:
                return Verdict(False, "key hash mismatch", kind=label)
            ok = self.sig_ok(tx, idx, sig, sec, script_code, value, witness)
            return Verdict(ok, "signature", [0] if ok else [], kind=label)
        m, secs = par
        if not items:
            return Verdict(False, "multisig needs the dummy", kind=label)
        ok, signed = self.multisig(tx, idx, m, secs, items[1:], script_code, value, witness)
        if items[0] != b"":
            return Verdict(False, "NULLDUMMY", signed, kind=label)
        return Verdict(ok, "multisig", signed, kind=label)

    def _witness(self, tx, idx, kind, par, wit, value, label):
        if any(len(w) > 520 for w in (wit[:-1] if kind == "p2wsh" else wit)):
            return Verdict(False, "witness item too large", kind=label)
        if kind == "p2wpkh":
            if len(wit) != 2:
                return Verdict(False, "p2wpkh witness must be [sig, key]", kind=label)
            sig, sec = wit
            if hash160(sec) != par:
                return Verdict(False, "key hash mismatch", kind=label)
            ok = self.sig_ok(tx, idx, sig, sec, p2pkh(par), value, True)
            return Verdict(ok, "signature", [0] if ok else [], kind=label)
        if not wit:
            return Verdict(False, "empty witness", kind=label)
        ws = wit[-1]
        if hashlib.sha256(ws).digest() != par:
            return Verdict(False, "witness script hash mismatch", kind=label)
        if len(ws) > 10000:
            return Verdict(False, "witness script too large", kind=label)
        k2, p2 = classify(ws)
        if k2 == "multisig":
            m, secs = p2
            stack = wit[:-1]
            if not stack:
                return Verdict(False, "multisig needs the dummy", kind=label + "-multisig")
            ok, signed = self.multisig(tx, idx, m, secs, stack[1:], ws, value, True)
            if stack[0] != b"":
                return Verdict(False, "NULLDUMMY", signed, kind=label + "-multisig")
            return Verdict(ok, "multisig", signed, kind=label + "-multisig")
        if k2 in ("p2pk", "p2pkh"):
            v = self._bare(tx, idx, k2, p2, wit[:-1], ws, value, True, label + "-" + k2)
            return v
        return Verdict(None, "witness script is not a standard template", kind=label)


def kat():
    from . import wire
    # the BIP143 native P2WPKH example transaction is fully signed: both inputs must be standard-valid
    signed = wire.dec_tx(bytes.fromhex(
        "01000000000102fff7f7881a8099afa6940d42d1e7f6362bec38171ea3edf433541db4e4ad969f00000000494830450221008b9d1dc26ba6a9cb"
        "62127b02742fa9d754cd3bebf337f7a55d114c8e5cdd30be022040529b194ba3f9281a99f2b1c0a19c0489bc22ede944ccf4ecbab4cc618ef3ed"
        "01eeffffffef51e1b804cc89d182d279655c3aa89e815b1b309fe287d9b2b55d57b90ec68a0100000000ffffffff02202cb206000000001976a9"
        "148280b37df378db99f66f85c95a783a76ac7a6d5988ac9093510d000000001976a9143bde42dbee7e4dbe6a21b2d50ce2f0167faa815988ac00"
        "0247304402203609e17b84f6a7d30c80bfa610b5b4542f32a8a0d5447a12fb1366d7f01cc44a0220573a954c4518331561406f90300e8f3358f5"
        "1928d43c212a8caed02de67eebee0121025476c2e83188368da1ff3e292e7acafcdb3566bb0ad253f62fc70f07aeee635711000000"))
    V = Validator({"sig": "btc"})
    pk0 = bytes.fromhex("03c9f4836b9a4f77fc0d81f7bcb01b7f1b35916864b9476c241ce9fc198bd25432")
    u0 = {"value": 625000000, "script": p2pk(pk0)}
    u1 = {"value": 600000000, "script": bytes.fromhex("00141d0f172a0ecb48aee1be1f2687d2963ae33f71a1")}
    assert V.input(signed, 0, u0).valid is True
    assert V.input(signed, 1, u1).valid is True
    assert V.input(signed, 1, dict(u1, value=600000001)).valid is False      # amount is committed under BIP143
    assert V.input(signed, 0, dict(u0, value=1)).valid is True                # and is not for legacy inputs
    assert V.input(signed, 1, None).valid is False
    t2 = dict(signed, locktime=18)
    assert V.input(t2, 0, u0).valid is False and V.input(t2, 1, u1).valid is False
    t3 = dict(signed, ins=[dict(signed["ins"][0]), dict(signed["ins"][1], witness=list(reversed(signed["ins"][1]["witness"])))])
    assert V.input(t3, 1, u1).valid is False
    assert classify(multisig_script(2, [pk0, pk0, pk0]))[0] == "multisig"
    assert parse_multisig(multisig_script(17, [pk0] * 20)) == (17, [pk0] * 20)
    assert parse_push_only(b"\x01\x05") == "non-minimal push" and parse_push_only(b"\x55") == [b"\x05"]
    assert strict_der(signed["ins"][0]["script"][1:]) is not None
