"""Known-answer tests for the reference models; a failing KAT is a harness error, never a violation."""

KATS = {}   # name -> callable
FOR_PROP = {}  # prop -> [names]


def register(name, props):
    def deco(f):
        KATS[name] = f
        for p in props:
            FOR_PROP.setdefault(p, []).append(name)
        return f
    return deco


@register("chain-model", ["C15"])
def _chain():
    from dsim.models.chain import ChainModel
    m = ChainModel("A")
    m.deliver("a", "A", 1)
    m.deliver("b", "a", 1)
    m.deliver("c", "A", 3)
    m.deliver("o", "zz", 100)
    assert m.best_below("A") == (3, 1)
    assert m.check_chain(["c"]) is None
    assert m.check_chain(["a", "b"])[0] == "not-heaviest"
    assert m.check_chain(["o"])[0] == "not-linked"
    m.deliver("d", "b", 1)
    assert m.best_below("A") == (3, 2)
    assert m.check_chain(["a", "b", "d"]) is None
    m.lock(["a"])
    assert m.best_below("a") == (2, 1)
    assert m.check_chain(["c"])[0] == "locked-prefix-changed"


def run_for(prop):
    for name in FOR_PROP.get(prop, []):
        KATS[name]()


def run_all(verbose=False):
    for name in sorted(KATS):
        KATS[name]()
        if verbose:
            print("  kat ok:", name)


@register("ec-model", ["C01", "C02", "C09", "C05", "C04", "C06"])
def _ec():
    import hashlib
    from dsim.models import ec
    k1 = ec.SECP256K1
    assert k1.on_curve(k1.G) and k1.mul(k1.n, k1.G) is None
    assert k1.mul(2, k1.G) == (0xC6047F9441ED7D6D3045406E95C07CD85C778E4B8CEF3CA7ABAC09B95C709EE5,
                               0x1AE168FEA63DC339A3C58419466CEAEEF7F632653266D0E1236431A950CFE52A)
    assert k1.mul(3, k1.G) == (0xF9308A019258C31049344F85F89D5229B531C845836F99B08601F113BCE036F9,
                               0x388F7B0F632DE8140FE337E62A37F3566500A99934C2231B6CB9FD7584B8E672)
    assert k1.mul(-1, k1.G) == k1.neg(k1.G) == k1.mul(k1.n - 1, k1.G)
    r1 = ec.SECP256R1
    assert r1.on_curve(r1.G) and r1.mul(r1.n, r1.G) is None
    b = ec.BLS12_381_G1
    assert b.on_curve(b.G) and b.mul(b.n, b.G) is None
    # RFC 6979 A.2.5 (P-256, SHA-256)
    x = 0xC9AFA9D845BA75166B5C215767B1D6934E50C3DB36E89B127B8A622B120F6721
    z = int.from_bytes(hashlib.sha256(b"sample").digest(), "big")
    k = next(r1.rfc6979_candidates(x, z))
    assert k == 0xA6E3C57DD01ABE90086538398355DD4C3B17AA873382B0F24D6129493D8AAD60
    r, s, R, first = r1.sign_rfc6979(x, z)
    assert r == 0xEFD48B2AACB6A8FD1140DD9CD45E81D69D2C877B56AAF991C34D0EA84EAF3716
    assert s == 0xF7CB1C942D657C41D436C7A1B6E29F65F3E900DBB9AFF4064DC4AB2F843ACDA8 and first
    Q = r1.mul(x, r1.G)
    assert Q == (0x60FED4BA255A9D31C961EB74C6356D68C049B8923B61FA6CE669622E60F29FB6,
                 0x7903FE1008B8BC99A41AE9E95628BC64F2F1B20C2D7E9F5177A3C294D4462299)
    assert r1.verify(Q, z, r, s) and not r1.verify(Q, z + 1, r, s) and not r1.verify(Q, z, r, r1.n - s + 1)
    z2 = int.from_bytes(hashlib.sha256(b"test").digest(), "big")
    assert next(r1.rfc6979_candidates(x, z2)) == 0xD16B6AE827F17175E040871A1C7EC3500192C4C92677336EC2537ACAEE0008E0
    r, s, _, _ = r1.sign_rfc6979(x, z2)
    assert r == 0xF1ABB023518351CD71D881567B1EA663ED3EFCF6C5132B354F28D3B0B7D38367
    assert s == 0x019F4113742A2B14BD25926B49C649155F267E60D3814B4C0CC84250E46F0083
    # secp256k1, key 1, "Satoshi Nakamoto"
    z3 = int.from_bytes(hashlib.sha256(b"Satoshi Nakamoto").digest(), "big")
    assert next(k1.rfc6979_candidates(1, z3)) == 0x8F8A276C19F4149656B280621E358CCE24F5F52542772691EE69063B74F15D15
    r, s, _, _ = k1.sign_rfc6979(1, z3)
    assert r == 0x934b1ea10a4b3c1757e2b0c017d0b6143ce3c9a7e6a4a49860d7a6ab210ee3d8
    assert min(s, k1.n - s) == 0x2442ce9d2b916064108014783e923ec36b49743e2ffa1c4496f01a512aafd9e5
    assert k1.mul(1, k1.G) in k1.recover_candidates(z3, r, s)
    # toy curves: group axioms by brute force on the smallest ones, order on all
    toys = ec.toy_curves()
    assert len(toys) >= 20
    for c in toys:
        assert c.on_curve(c.G) and c.mul_unreduced(c.n, c.G) is None and ec._is_prime(c.n) and c.p % 4 == 3
    c = toys[0]
    pts = [None]
    for x in range(c.p):
        l = c.lift_x(x)
        if l:
            pts.extend(dict.fromkeys(l))
    assert len(pts) == c.n
    for P in pts:
        assert c.add(P, c.neg(P)) is None
        for Q in pts:
            assert c.add(P, Q) == c.add(Q, P) and c.on_curve(c.add(P, Q))
            for R in pts[:5]:
                assert c.add(c.add(P, Q), R) == c.add(P, c.add(Q, R))
    # fixed-base table == affine definition
    for c2 in toys[:8]:
        for kk in range(-2, 2 * c2.n + 2):
            assert c2.mul_g(kk) == c2.mul_affine(kk, c2.G), (c2.name, kk)
    for cv in (k1, r1, b):
        x = 0x7654321
        for _ in range(6):
            x = (x * 0x9E3779B97F4A7C15 + 777) % cv.n
            assert cv.mul_g(x) == cv.mul_affine(x, cv.G)
        assert cv.mul_g(cv.n - 1) == cv.neg(cv.G) and cv.mul_g(cv.n) is None and cv.mul_g(1) == cv.G
    # Jacobian ladder == affine definition: all k on small curves, sampled k on the big ones
    for c2 in toys[:6]:
        for kk in range(-2, 2 * c2.n + 2):
            assert c2.mul(kk, c2.G) == c2.mul_affine(kk, c2.G), (c2.name, kk)
            Q2 = c2.mul_affine(3, c2.G)
            assert c2.mul(kk, Q2) == c2.mul_affine(kk, Q2)
    for cv in (k1, r1, b):
        x = 0x1234567
        for _ in range(6):
            x = (x * 0x9E3779B97F4A7C15 + 12345) % cv.n
            Pq = cv.mul_affine(x ^ 0xABCDEF, cv.G)
            assert cv.mul(x, Pq) == cv.mul_affine(x, Pq) and cv.mul(x, cv.G) == cv.mul_affine(x, cv.G)
        assert cv.mul(cv.n - 1, cv.G) == cv.neg(cv.G) and cv.mul(cv.n + 1, cv.G) == cv.G
    acc = None
    for kk in range(0, 3 * c.n):
        assert c.mul(kk, c.G) == acc == c.mul_unreduced(kk, c.G)
        assert c.mul(-kk, c.G) == c.neg(acc)
        acc = c.add(acc, c.G)


@register("ripemd-model", ["C19", "C09", "C05", "C06", "C13"])
def _ripemd():
    from dsim.models import ripemd
    ripemd.kat()


@register("murmur-model", ["C19", "C14"])
def _murmur():
    from dsim.models import murmur
    murmur.kat()


@register("merkle-model", ["C14"])
def _merkle():
    from dsim.models import merkle
    merkle.kat()


@register("bip32-model", ["C09"])
def _bip32():
    from dsim.models import bip32
    bip32.kat()


@register("wire-model", ["C07", "C14", "C13", "C04", "C05", "C06"])
def _wire():
    from dsim.models import wire
    wire.kat()


@register("sighash-model", ["C04", "C05", "C06"])
def _sighash():
    from dsim.models import sighash
    sighash.kat()


@register("stdvalidate-model", ["C05", "C06", "C04"])
def _stdvalidate():
    from dsim.models import stdvalidate
    stdvalidate.kat()
