"""Known-answer tests for the reference models; a failing KAT is a harness error, never a violation."""

KATS = {}   # name -> callable
FOR_PROP = {}  # prop -> [names]


def register(name, props):
    def deco(f):
        KATS[name] = f
        for p in props:
            FOR_PROP.setdefault(p, []).append(name)
        return f
    return deco


@register("chain-model", ["C15"])
def _chain():
    from dsim.models.chain import ChainModel
    m = ChainModel("A")
    m.deliver("a", "A", 1)
    m.deliver("b", "a", 1)
    m.deliver("c", "A", 3)
    m.deliver("o", "zz", 100)
    assert m.best_below("A") == (3, 1)
    assert m.check_chain(["c"]) is None
    assert m.check_chain(["a", "b"])[0] == "not-heaviest"
    assert m.check_chain(["o"])[0] == "not-linked"
    m.deliver("d", "b", 1)
    assert m.best_below("A") == (3, 2)
    assert m.check_chain(["a", "b", "d"]) is None
    m.lock(["a"])
    assert m.best_below("a") == (2, 1)
    assert m.check_chain(["c"])[0] == "locked-prefix-changed"


def run_for(prop):
    for name in FOR_PROP.get(prop, []):
        KATS[name]()


def run_all(verbose=False):
    for name in sorted(KATS):
        KATS[name]()
        if verbose:
            print("  kat ok:", name)
