"""Reference model: Bitcoin merkle root and BIP37 partial merkle trees.

Written from the Bitcoin protocol description of the block merkle tree and
from BIP37's "Partial Merkle branch format" section (depth-first traversal,
one flag bit per visited node, one hash per node that is not descended into).
Independent oracle: nothing here is derived from the library under test.

All hashes are 32-byte strings in internal (wire) byte order.
"""

import hashlib


def dsha256(b) -> bytes:
    return hashlib.sha256(hashlib.sha256(bytes(b)).digest()).digest()


def _next_level(level):
    n = len(level)
    out = []
    for i in range(0, n, 2):
        left = level[i]
        right = level[i + 1] if i + 1 < n else left
        out.append(dsha256(left + right))
    return out


def merkle_root(hashes: list[bytes]) -> bytes:
    """Bitcoin merkle root. A single hash is its own root.

    An empty list gives 32 zero bytes (what Bitcoin Core's ComputeMerkleRoot
    returns for no leaves)."""
    level = [bytes(h) for h in hashes]
    if not level:
        return b"\x00" * 32
    while len(level) > 1:
        level = _next_level(level)
    return level[0]


def _tree_width(total, height):
    """Number of nodes at `height` (0 = leaves) in a tree over `total` leaves."""
    return (total + (1 << height) - 1) >> height


def _tree_height(total):
    h = 0
    while _tree_width(total, h) > 1:
        h += 1
    return h


def _pack_bits(bits):
    out = bytearray((len(bits) + 7) // 8)
    for i, b in enumerate(bits):
        if b:
            out[i >> 3] |= 1 << (i & 7)
    return bytes(out)


def build_partial(txids: list[bytes], matches: list[bool]) -> tuple[int, list[bytes], bytes]:
    """Build a BIP37 partial merkle tree.

    Returns (total_transactions, hashes, flag_bytes); flag bit i is
    flag_bytes[i >> 3] >> (i & 7) & 1, zero padded to whole bytes."""
    total = len(txids)
    if total == 0:
        raise ValueError("build_partial: no transactions")
    if len(matches) != total:
        raise ValueError("build_partial: len(matches) != len(txids)")

    # All levels of the full tree, and per node "some leaf below matches".
    levels = [[bytes(t) for t in txids]]
    mlevels = [[bool(m) for m in matches]]
    while len(levels[-1]) > 1:
        prev_m = mlevels[-1]
        levels.append(_next_level(levels[-1]))
        mlevels.append([
            prev_m[i] or (i + 1 < len(prev_m) and prev_m[i + 1])
            for i in range(0, len(prev_m), 2)
        ])
    height = len(levels) - 1
    assert height == _tree_height(total)

    bits = []
    hashes = []
    stack = [(height, 0)]
    while stack:
        h, pos = stack.pop()
        flag = mlevels[h][pos]
        bits.append(flag)
        if h == 0 or not flag:
            # leaf, or subtree without matches: store the hash, do not descend
            hashes.append(levels[h][pos])
        else:
            # descend: left first, then right (if it exists)
            if 2 * pos + 1 < len(levels[h - 1]):
                stack.append((h - 1, 2 * pos + 1))
            stack.append((h - 1, 2 * pos))
    return total, hashes, _pack_bits(bits)


class ModelReject(Exception):
    """The partial merkle tree is malformed."""


def verify_partial(total: int, hashes: list[bytes], flag_bytes: bytes,
                   *, strict_padding: bool = True) -> tuple[bytes, list[bytes]]:
    """Parse a BIP37 partial merkle tree.

    Returns (computed merkle root, matched txids in block order). Raises
    ModelReject for: total == 0; running out of flag bits or hashes; hashes
    left over; flag bytes left over (bits used rounded up to bytes !=
    len(flag_bytes)); a set padding bit (only when strict_padding, which is
    the default -- Bitcoin Core itself ignores the padding bits' values);
    identical left and right child hashes under an inner node that has a right
    child (CVE-2012-2459 guard)."""
    if total <= 0:
        raise ModelReject("no transactions")
    hashes = [bytes(h) for h in hashes]
    flag_bytes = bytes(flag_bytes)
    nbits = len(flag_bytes) * 8
    height = _tree_height(total)

    bits_used = 0
    hashes_used = 0
    matched = []

    # Explicit-stack depth-first traversal. Frame: [height, pos, stage, left].
    # stage 0: not yet visited; 1: waiting for left child; 2: waiting for right.
    frames = [[height, 0, 0, None]]
    ret = None
    while frames:
        fr = frames[-1]
        h, pos, stage = fr[0], fr[1], fr[2]
        if stage == 0:
            if bits_used >= nbits:
                raise ModelReject("ran out of flag bits")
            flag = (flag_bytes[bits_used >> 3] >> (bits_used & 7)) & 1
            bits_used += 1
            if h == 0 or not flag:
                if hashes_used >= len(hashes):
                    raise ModelReject("ran out of hashes")
                ret = hashes[hashes_used]
                hashes_used += 1
                if h == 0 and flag:
                    matched.append(ret)
                frames.pop()
            else:
                fr[2] = 1
                frames.append([h - 1, 2 * pos, 0, None])
        elif stage == 1:
            fr[3] = ret
            if 2 * pos + 1 < _tree_width(total, h - 1):
                fr[2] = 2
                frames.append([h - 1, 2 * pos + 1, 0, None])
            else:
                ret = dsha256(ret + ret)
                frames.pop()
        else:
            left = fr[3]
            right = ret
            if left == right:
                raise ModelReject("identical left and right child hashes")
            ret = dsha256(left + right)
            frames.pop()

    if hashes_used != len(hashes):
        raise ModelReject("not all hashes consumed")
    if (bits_used + 7) // 8 != len(flag_bytes):
        raise ModelReject("not all flag bytes consumed")
    if strict_padding:
        for i in range(bits_used, nbits):
            if (flag_bytes[i >> 3] >> (i & 7)) & 1:
                raise ModelReject("padding bit set")
    return ret, matched


def _kat_txids(n, salt=b"kat"):
    return [dsha256(salt + i.to_bytes(4, "little")) for i in range(n)]


def _expect_reject(total, hashes, flag_bytes):
    try:
        verify_partial(total, hashes, flag_bytes)
    except ModelReject:
        return
    raise AssertionError(("expected ModelReject", total, len(hashes), flag_bytes.hex()))


def kat():
    """Self-consistency checks plus known-answer merkle roots."""
    # Known answers (displayed byte order -> internal order by reversing).
    def disp(hx):
        return bytes.fromhex(hx)[::-1]

    # Genesis block: single transaction is its own root.
    g = disp("4a5e1e4baab89f3a32518a88c31bc87f618f76673e2cc77ab2127b7afdeda33b")
    assert merkle_root([g]) == g
    # Block 170: two transactions.
    b170 = [
        disp("b1fea52486ce0c62bb442b530a3f0132b826c74e473d1f2c220bfa78111c5082"),
        disp("f4184fc596403b9d638783cf57adfe4c75c605f6356fbc91338530e9831e9e16"),
    ]
    want = disp("7dac2c5666815c17a3b36427de37bb9d2e2c5ccec3f8633eb91a4205cb4c10ff")
    assert merkle_root(b170) == want, merkle_root(b170)[::-1].hex()
    assert merkle_root([]) == b"\x00" * 32

    # Structure checks on merkle_root against its definition.
    t = _kat_txids(7)
    assert merkle_root(t[:2]) == dsha256(t[0] + t[1])
    assert merkle_root(t[:3]) == dsha256(dsha256(t[0] + t[1]) + dsha256(t[2] + t[2]))
    l01, l23, l45 = dsha256(t[0] + t[1]), dsha256(t[2] + t[3]), dsha256(t[4] + t[4])
    assert merkle_root(t[:5]) == dsha256(dsha256(l01 + l23) + dsha256(l45 + l45))

    # Hand-checked partial tree: 3 txs, match the middle one.
    # DFS: root(1) -> node(1,0)(1) -> leaf0(0) leaf1(1) -> node(1,1)(0)
    total, hs, fb = build_partial(t[:3], [False, True, False])
    assert total == 3
    assert hs == [t[0], t[1], dsha256(t[2] + t[2])]
    assert fb == bytes([0b01011])
    assert verify_partial(total, hs, fb) == (merkle_root(t[:3]), [t[1]])
    # no matches: just the root hash and a single 0 bit
    assert build_partial(t[:5], [False] * 5) == (5, [merkle_root(t[:5])], b"\x00")
    # single tx
    assert build_partial(t[:1], [True]) == (1, [t[0]], b"\x01")
    assert build_partial(t[:1], [False]) == (1, [t[0]], b"\x00")

    # Round trips.
    lcg = 12345
    for n in range(1, 41):
        txids = _kat_txids(n)
        root = merkle_root(txids)
        rnd = []
        for _ in range(n):
            lcg = (lcg * 1103515245 + 12345) & 0x7FFFFFFF
            rnd.append(bool((lcg >> 16) & 1))
        patterns = [
            [False] * n,
            [True] * n,
            [i == 0 for i in range(n)],
            [i == n - 1 for i in range(n)],
            [i % 2 == 0 for i in range(n)],
            [i % 2 == 1 for i in range(n)],
            rnd,
        ]
        for matches in patterns:
            total, hs, fb = build_partial(txids, matches)
            assert total == n
            got_root, got_matched = verify_partial(total, hs, fb)
            assert got_root == root, ("partial root", n, matches)
            assert got_matched == [x for x, m in zip(txids, matches) if m], ("partial matches", n, matches)
            assert len(hs) <= n
            # rejects: extra hash, missing hash, extra flag byte, missing flag byte
            _expect_reject(total, hs + [hs[-1]], fb)
            _expect_reject(total, hs[:-1], fb)
            _expect_reject(total, hs, fb + b"\x00")
            _expect_reject(total, hs, fb[:-1])
            _expect_reject(0, hs, fb)

    # Padding bit set -> reject (strict), accepted when strict_padding=False.
    total, hs, fb = build_partial(t[:3], [False, True, False])  # 5 bits used
    bad = bytes([fb[0] | 0x80])
    _expect_reject(total, hs, bad)
    assert verify_partial(total, hs, bad, strict_padding=False) == (merkle_root(t[:3]), [t[1]])

    # CVE-2012-2459 guard: duplicated trailing pair is rejected.
    dup = t[:3] + [t[2]]  # 4 leaves, last two identical -> same root as 3 leaves
    assert merkle_root(dup) == merkle_root(t[:3])
    total, hs, fb = build_partial(dup, [False, False, True, True])
    _expect_reject(total, hs, fb)

    # Deep claimed tree with nothing but 1 bits runs out of bits, no recursion issue.
    _expect_reject(1 << 5000, [t[0]], b"\xff" * 500)
    return True
