"""Reference model: MurmurHash3 (x86, 32-bit) and the BIP37 Bloom filter.

Written from Austin Appleby's public-domain MurmurHash3 description and from
BIP37. Independent oracle: nothing here is derived from the library under test.
"""

_M = 0xFFFFFFFF
_C1 = 0xCC9E2D51
_C2 = 0x1B873593


def _rotl(x, r):
    return ((x << r) | (x >> (32 - r))) & _M


def murmur3_32(data: bytes, seed: int) -> int:
    """MurmurHash3_x86_32 of `data`; seed reduced mod 2**32; result in [0, 2**32)."""
    data = bytes(data)
    n = len(data)
    h = seed & _M
    nblocks = n >> 2

    # body: 4-byte little-endian blocks
    for i in range(nblocks):
        k = int.from_bytes(data[4 * i:4 * i + 4], "little")
        k = (k * _C1) & _M
        k = _rotl(k, 15)
        k = (k * _C2) & _M
        h ^= k
        h = _rotl(h, 13)
        h = (h * 5 + 0xE6546B64) & _M

    # tail: remaining 1..3 bytes, little-endian
    tail = data[4 * nblocks:]
    if tail:
        k = int.from_bytes(tail, "little")
        k = (k * _C1) & _M
        k = _rotl(k, 15)
        k = (k * _C2) & _M
        h ^= k

    # finalization (fmix32)
    h ^= n & _M
    h ^= h >> 16
    h = (h * 0x85EBCA6B) & _M
    h ^= h >> 13
    h = (h * 0xC2B2AE35) & _M
    h ^= h >> 16
    return h


class ModelBloom:
    """BIP37 Bloom filter (bit vector only; no nFlags / size-limit policy)."""

    def __init__(self, size_bytes: int, n_hash_funcs: int, tweak: int):
        if size_bytes < 0 or n_hash_funcs < 0:
            raise ValueError("negative size")
        self.size_bytes = size_bytes
        self.n_hash_funcs = n_hash_funcs
        self.tweak = tweak & _M
        self.filter = bytearray(size_bytes)

    def bit_indexes(self, data: bytes) -> list[int]:
        nbits = self.size_bytes * 8
        if nbits == 0:
            return []
        return [
            murmur3_32(data, (i * 0xFBA4C795 + self.tweak) & _M) % nbits
            for i in range(self.n_hash_funcs)
        ]

    def add(self, data: bytes) -> None:
        for idx in self.bit_indexes(data):
            self.filter[idx >> 3] |= 1 << (idx & 7)

    def contains(self, data: bytes) -> bool:
        # Zero-length filter: Bitcoin Core returns true here (it only avoids the
        # divide-by-zero, CVE-2013-5700); add() is a no-op on such a filter.
        if self.size_bytes == 0:
            return True
        return all(
            self.filter[idx >> 3] & (1 << (idx & 7))
            for idx in self.bit_indexes(data)
        )

    def to_bytes(self) -> bytes:
        return bytes(self.filter)


# (data, seed, expected)
_MURMUR_VECTORS = (
    (b"", 0, 0x00000000),
    (b"", 1, 0x514E28B7),
    (b"", 0xFFFFFFFF, 0x81F16F39),
    (b"\x00\x00\x00\x00", 0, 0x2362F9DE),
    (b"aaaa", 0x9747B28C, 0x5A97808A),
    (b"Hello, world!", 0x9747B28C, 0x24884CBA),
    (b"The quick brown fox jumps over the lazy dog", 0x9747B28C, 0x2FA826CD),
    (b"abc", 0, 0xB3DD93FA),
)

# Bitcoin Core src/test/hash_tests.cpp (seed, data hex, expected)
_CORE_VECTORS = (
    (0x00000000, "", 0x00000000),
    (0xFBA4C795, "", 0x6A396F08),
    (0xFFFFFFFF, "", 0x81F16F39),
    (0x00000000, "00", 0x514E28B7),
    (0xFBA4C795, "00", 0xEA3F0B17),
    (0x00000000, "ff", 0xFD6CF10D),
    (0x00000000, "0011", 0x16C6B7AB),
    (0x00000000, "001122", 0x8EB51C3D),
    (0x00000000, "00112233", 0xB4471BF8),
    (0x00000000, "0011223344", 0xE2301FA8),
    (0x00000000, "001122334455", 0xFC2E4A15),
    (0x00000000, "00112233445566", 0xB074502C),
    (0x00000000, "0011223344556677", 0x8034D2A0),
    (0x00000000, "001122334455667788", 0xB4698DEF),
)

_BLOOM_INSERTS = (
    "99108ad8ed9bb6274d3980bab5a85c048f0950c8",
    "b5a2c786d9ef4658287ced5914b37a1b4aa32eee",
    "b9300670b4c5366e95b2699e8b18bc75e5f729c5",
)


def kat():
    """Known-answer tests: MurmurHash3 vectors and BIP37 filter vectors."""
    for data, seed, want in _MURMUR_VECTORS:
        got = murmur3_32(data, seed)
        assert got == want, ("murmur3 KAT", data, hex(seed), hex(got), hex(want))
    for seed, hx, want in _CORE_VECTORS:
        got = murmur3_32(bytes.fromhex(hx), seed)
        assert got == want, ("murmur3 Core KAT", hx, hex(seed), hex(got), hex(want))

    # seed reduction mod 2**32 (including negative seeds)
    assert murmur3_32(b"abc", 2**32) == murmur3_32(b"abc", 0)
    assert murmur3_32(b"abc", -1) == murmur3_32(b"abc", 0xFFFFFFFF)

    # Bitcoin Core bloom_tests: bloom_create_insert_serialize (+ _with_tweaks)
    for tweak, want in ((0, "614e9b"), (2147483649, "ce4299")):
        bf = ModelBloom(3, 5, tweak)
        for hx in _BLOOM_INSERTS:
            bf.add(bytes.fromhex(hx))
            assert bf.contains(bytes.fromhex(hx))
        got = bf.to_bytes().hex()
        assert got == want, ("bloom KAT", tweak, got, want)
        for hx in _BLOOM_INSERTS:
            assert bf.contains(bytes.fromhex(hx))
    # Core's negative check from the same test: one bit different in first byte
    bf = ModelBloom(3, 5, 0)
    bf.add(bytes.fromhex(_BLOOM_INSERTS[0]))
    assert not bf.contains(bytes.fromhex("19108ad8ed9bb6274d3980bab5a85c048f0950c8"))
    # every reported index is in range
    for idx in bf.bit_indexes(b"xyz"):
        assert 0 <= idx < 24
    return True
