"""Reference model: short-Weierstrass group law, ECDSA, RFC 6979 — written from the textbook
definitions, deliberately with different algorithms from pycoin's (pow(x,-1,p) instead of
extended Euclid; LSB-first double-and-add instead of the signed-digit ladder; no tables, no
blinding).  Points are (x, y) tuples of reduced ints; INF is None.
"""
import hashlib
import hmac

INF = None


class MCurve(object):
    def __init__(self, p, a, b, G, n, name="?"):
        self.p, self.a, self.b, self.G, self.n, self.name = p, a, b, tuple(G), n, name

    def params(self):
        return {"p": self.p, "a": self.a, "b": self.b, "G": list(self.G), "n": self.n, "name": self.name}

    @classmethod
    def from_params(cls, d):
        return cls(d["p"], d["a"], d["b"], d["G"], d["n"], d.get("name", "?"))

    def on_curve(self, P):
        if P is INF:
            return True
        x, y = P
        return 0 <= x < self.p and 0 <= y < self.p and (y * y - (x * x * x + self.a * x + self.b)) % self.p == 0

    def neg(self, P):
        if P is INF:
            return INF
        return (P[0], (-P[1]) % self.p)

    def add(self, P, Q):
        if P is INF:
            return Q
        if Q is INF:
            return P
        p = self.p
        x1, y1 = P
        x2, y2 = Q
        if x1 == x2:
            if (y1 + y2) % p == 0:
                return INF
            lam = (3 * x1 * x1 + self.a) * pow(2 * y1, -1, p) % p
        else:
            lam = (y2 - y1) * pow(x2 - x1, -1, p) % p
        x3 = (lam * lam - x1 - x2) % p
        return (x3, (lam * (x1 - x3) - y1) % p)

    def mul_affine(self, k, P):
        """k*P, LSB-first double-and-add in affine coordinates (the definition; slow)"""
        k %= self.n
        R = INF
        A = P
        while k:
            if k & 1:
                R = self.add(R, A)
            A = self.add(A, A)
            k >>= 1
        return R

    def mul(self, k, P):
        """k*P for any integer k (k is reduced mod n: P has order n or 1).  MSB-first
        double-and-add in Jacobian coordinates, one field inversion at the end; checked against
        mul_affine in the KATs."""
        k %= self.n
        if P is INF or k == 0:
            return INF
        p, a = self.p, self.a
        x1, y1 = P
        X, Y, Z = x1, y1, 1
        inf = False
        for bit in bin(k)[3:]:
            # double
            if not inf:
                if Y == 0:
                    inf = True
                else:
                    YY = Y * Y % p
                    S = 4 * X * YY % p
                    M = (3 * X * X + a * pow(Z, 4, p)) % p if a else 3 * X * X % p
                    X3 = (M * M - 2 * S) % p
                    Y3 = (M * (S - X3) - 8 * YY * YY) % p
                    Z = 2 * Y * Z % p
                    X, Y = X3, Y3
            if bit == "1":
                if inf:
                    X, Y, Z, inf = x1, y1, 1, False
                else:
                    # mixed addition (X,Y,Z) + (x1,y1)
                    ZZ = Z * Z % p
                    U2 = x1 * ZZ % p
                    S2 = y1 * ZZ * Z % p
                    H = (U2 - X) % p
                    r = (S2 - Y) % p
                    if H == 0:
                        if r == 0:
                            # doubling of the affine point
                            Q = self.add(P, P)
                            if Q is INF:
                                inf = True
                            else:
                                X, Y, Z = Q[0], Q[1], 1
                        else:
                            inf = True
                    else:
                        HH = H * H % p
                        HHH = H * HH % p
                        V = X * HH % p
                        X3 = (r * r - HHH - 2 * V) % p
                        Y3 = (r * (V - X3) - Y * HHH) % p
                        Z = Z * H % p
                        X, Y = X3, Y3
        if inf or Z == 0:
            return INF
        zi = pow(Z, -1, p)
        zi2 = zi * zi % p
        return (X * zi2 % p, Y * zi2 * zi % p)

    def mul_g(self, k):
        """k*G through a lazily built table of 2^i * G (affine): Jacobian accumulation of mixed additions only.
        A third algorithm beside mul / mul_affine; cross-checked in the KATs."""
        k %= self.n
        if k == 0:
            return INF
        tab = self.__dict__.get("_gtab")
        if tab is None:
            tab = []
            A = self.G
            for _ in range(self.n.bit_length()):
                tab.append(A)
                A = self.add(A, A)
            self._gtab = tab
        p = self.p
        X = Y = Z = None
        i = 0
        while k:
            if k & 1:
                x1, y1 = tab[i]
                if X is None:
                    X, Y, Z = x1, y1, 1
                else:
                    ZZ = Z * Z % p
                    U2 = x1 * ZZ % p
                    S2 = y1 * ZZ * Z % p
                    H = (U2 - X) % p
                    r = (S2 - Y) % p
                    if H == 0:
                        # cannot happen for distinct powers of two below a prime order, but stay correct
                        zi = pow(Z, -1, p)
                        acc = (X * zi * zi % p, Y * zi * zi * zi % p)
                        Q = self.add(acc, tab[i])
                        if Q is INF:
                            X = Y = Z = None
                        else:
                            X, Y, Z = Q[0], Q[1], 1
                    else:
                        HH = H * H % p
                        HHH = H * HH % p
                        V = X * HH % p
                        X3 = (r * r - HHH - 2 * V) % p
                        Y = (r * (V - X3) - Y * HHH) % p
                        Z = Z * H % p
                        X = X3
            k >>= 1
            i += 1
        if X is None:
            return INF
        zi = pow(Z, -1, p)
        zi2 = zi * zi % p
        return (X * zi2 % p, Y * zi2 * zi % p)

    def mul_unreduced(self, k, P):
        """k*P by the definition (no reduction of k); negative k = |k| * (-P)"""
        if k < 0:
            k, P = -k, self.neg(P)
        R = INF
        A = P
        while k:
            if k & 1:
                R = self.add(R, A)
            A = self.add(A, A)
            k >>= 1
        return R

    def lift_x(self, x):
        """the two points with this x, even y first; None if there is none (p = 3 mod 4)"""
        p = self.p
        rhs = (pow(x, 3, p) + self.a * x + self.b) % p
        y = pow(rhs, (p + 1) // 4, p)
        if y * y % p != rhs:
            return None
        if y == 0:
            return ((x % p, 0), (x % p, 0))
        y2 = p - y
        return ((x % p, y), (x % p, y2)) if y % 2 == 0 else ((x % p, y2), (x % p, y))

    # -- ECDSA ---------------------------------------------------------------------------------
    def rfc6979_candidates(self, d, z, hlen_bits=256):
        """generator of RFC 6979 nonce candidates for private key d and hash value z (an integer
        standing for the hlen-bit hash output), HMAC-SHA256; section 3.2 steps a-h"""
        n = self.n
        qlen = n.bit_length()
        rlen = (qlen + 7) // 8
        hbytes = z.to_bytes(hlen_bits // 8, "big")

        def bits2int(b):
            v = int.from_bytes(b, "big")
            blen = len(b) * 8
            return v >> (blen - qlen) if blen > qlen else v

        def int2octets(x):
            return x.to_bytes(rlen, "big")

        def bits2octets(b):
            z1 = bits2int(b)
            return int2octets(z1 % n)

        def H(k, m):
            return hmac.new(k, m, hashlib.sha256).digest()

        V = b"\x01" * 32
        K = b"\x00" * 32
        x = int2octets(d) + bits2octets(hbytes)
        K = H(K, V + b"\x00" + x)
        V = H(K, V)
        K = H(K, V + b"\x01" + x)
        V = H(K, V)
        while True:
            T = b""
            while len(T) * 8 < qlen:
                V = H(K, V)
                T += V
            k = bits2int(T)
            if 1 <= k < n:
                yield k
            K = H(K, V + b"\x00")
            V = H(K, V)

    def sign_with_k(self, d, z, k):
        """textbook (r, s, R) for nonce k; r or s may be 0"""
        n = self.n
        R = self.mul_g(k)
        if R is INF:
            return 0, 0, R
        r = R[0] % n
        s = pow(k, -1, n) * (z + r * d) % n
        return r, s, R

    def sign_rfc6979(self, d, z):
        """returns (r, s, R, first_ok): first_ok iff the first candidate gave non-zero r and s"""
        first = True
        for k in self.rfc6979_candidates(d, z):
            r, s, R = self.sign_with_k(d, z, k)
            if r and s:
                return r, s, R, first
            first = False

    def verify(self, Q, z, r, s):
        n = self.n
        if not (1 <= r < n and 1 <= s < n):
            return False
        w = pow(s, -1, n)
        X = self.add(self.mul_g(z * w % n), self.mul(r * w % n, Q))
        if X is INF:
            return False
        return X[0] % n == r

    def recover_candidates(self, z, r, s):
        """all Q with nonce point R having x = r exactly (what a recoverer that lifts x = r can
        find); only meaningful for 1 <= r < n"""
        out = []
        pts = self.lift_x(r) if 0 <= r < self.p else None
        if pts is None:
            return out
        rinv = pow(r, -1, self.n)
        for R in dict.fromkeys(pts):
            Q = self.mul(rinv, self.add(self.mul(s, R), self.neg(self.mul(z, self.G))))
            out.append(Q)
        return out


SECP256K1 = MCurve(
    0xFFFFFFFFFFFFFFFFFFFFFFFFFFFFFFFFFFFFFFFFFFFFFFFFFFFFFFFEFFFFFC2F, 0, 7,
    (0x79BE667EF9DCBBAC55A06295CE870B07029BFCDB2DCE28D959F2815B16F81798,
     0x483ADA7726A3C4655DA4FBFC0E1108A8FD17B448A68554199C47D08FFB10D4B8),
    0xFFFFFFFFFFFFFFFFFFFFFFFFFFFFFFFEBAAEDCE6AF48A03BBFD25E8CD0364141, "secp256k1")

SECP256R1 = MCurve(
    0xFFFFFFFF00000001000000000000000000000000FFFFFFFFFFFFFFFFFFFFFFFF,
    0xFFFFFFFF00000001000000000000000000000000FFFFFFFFFFFFFFFFFFFFFFFC,
    0x5AC635D8AA3A93E7B3EBBD55769886BC651D06B0CC53B0F63BCE3C3E27D2604B,
    (0x6B17D1F2E12C4247F8BCE6E563A440F277037D812DEB33A0F4A13945D898C296,
     0x4FE342E2FE1A7F9B8EE7EB4A7C0F9E162BCE33576B315ECECBB6406837BF51F5),
    0xFFFFFFFF00000000FFFFFFFFFFFFFFFFBCE6FAADA7179E84F3B9CAC2FC632551, "secp256r1")

BLS12_381_G1 = MCurve(
    0x1A0111EA397FE69A4B1BA7B6434BACD764774B84F38512BF6730D2A0F6B0F6241EABFFFEB153FFFFB9FEFFFFFFFFAAAB, 0, 4,
    (0x17F1D3A73197D7942695638C4FA9AC0FC3688C4F9774B905A14E3A3F171BAC586C55E83FF97A1AEFFB3AF00ADB22C6BB,
     0x08B3F481E3AAA0F1A09E30ED741D8AE4FCF5E095D5D00AF600DB18CB2C04B3EDD03CC744A2888AE40CAA232946C5E7E1),
    0x73EDA753299D7D483339D80809A1D80553BDA402FFFE5BFEFFFFFFFF00000001, "bls12_381_g1")

NAMED = {"secp256k1": SECP256K1, "secp256r1": SECP256R1, "bls12_381_g1": BLS12_381_G1}


# ---------------------------------------------------------------------------------------------
# toy curves of prime order, p = 3 (mod 4): found by deterministic search, point counts by
# brute force (Euler's criterion), so nothing here depends on pycoin
# ---------------------------------------------------------------------------------------------

def _is_prime(n):
    if n < 2:
        return False
    i = 2
    while i * i <= n:
        if n % i == 0:
            return False
        i += 1
    return True


def _count_points(p, a, b):
    cnt = 1
    e = (p - 1) // 2
    for x in range(p):
        rhs = (x * x * x + a * x + b) % p
        if rhs == 0:
            cnt += 1
        elif pow(rhs, e, p) == 1:
            cnt += 2
    return cnt


_TOY_CACHE = None
# (p, a, b) found once by exhaustive search over b for a in (0, 1, p-3, 2, 5); the order and the
# base point are recomputed (brute-force point count) every time, so a wrong entry cannot survive
TOY_PARAMS = [(11, 1, 5), (11, 8, 1), (19, 0, 2), (19, 1, 4), (23, 1, 4), (23, 20, 1), (43, 0, 7), (43, 1, 3),
              (67, 0, 2), (67, 1, 8), (103, 0, 5), (103, 1, 4), (131, 1, 9), (131, 128, 1), (251, 1, 4),
              (251, 248, 26), (499, 0, 11), (499, 1, 18), (1019, 1, 20), (1019, 1016, 15), (2003, 1, 20),
              (2003, 2000, 1), (3011, 1, 9), (3011, 3008, 15), (3967, 0, 6), (3967, 1, 3)]


# families of prime-order curves over one field that all pass through (1, 1) (b = -a): two generators may share the prime and
# the base point and still live on different curves.  (p, [a, ...]); orders are recomputed by brute force when used.
TOY_THROUGH_1_1 = [(43, [24, 30, 31]), (67, [9, 22, 44, 52, 56]), (103, [3, 12, 43, 54]), (251, [11, 15, 35, 41]),
                   (1019, [10, 11, 14, 21])]


def toy_through_1_1(p, a):
    b = (p - a) % p
    assert (4 * a * a * a + 27 * b * b) % p != 0
    n = _count_points(p, a, b)
    assert _is_prime(n) and n >= 5 and n != p, (p, a, b, n)
    c = MCurve(p, a, b, (1, 1), n)
    assert c.on_curve(c.G)
    c.name = "toy-p%d-a%d-b%d-n%d-G11" % (p, a, b, n)
    return c


def toy_curves():
    """a fixed list of MCurve objects of prime order with p = 3 (mod 4); deterministic"""
    global _TOY_CACHE
    if _TOY_CACHE is not None:
        return _TOY_CACHE
    out = []
    for i, (p, a, b) in enumerate(TOY_PARAMS):
        assert p % 4 == 3 and _is_prime(p) and (4 * a * a * a + 27 * b * b) % p != 0
        n = _count_points(p, a, b)
        assert _is_prime(n) and n >= 5, (p, a, b, n)
        c = MCurve(p, a, b, (0, 0), n)
        for x in range(p):
            pts = c.lift_x(x)
            if pts is not None:
                c.G = pts[i % 2]
                break
        c.name = "toy-p%d-a%d-b%d-n%d" % (p, a, b, n)
        out.append(c)
    _TOY_CACHE = out
    return out
