"""Reference model of the message digests signatures commit to.

legacy(): the original algorithm (OP_CODESEPARATOR removal, SIGHASH_NONE / SINGLE / ANYONECANPAY
blanking, the constant 1 for SINGLE without a matching output).  FindAndDelete of the signature
being checked is `find_and_delete`.  bip143(): BIP143, with the fork-id variants (BCH: hash type
used as is; BTG: fork id 79 folded into bits 8..31) and Groestlcoin's single-SHA256 variant.
Digests are returned as integers (big-endian reading of the 32 digest bytes).
Transactions are models/wire.py dicts.
"""
import hashlib
import struct

from .wire import compact, dsha256

ALL, NONE, SINGLE, FORKID, ANYONECANPAY = 1, 2, 3, 0x40, 0x80
OP_CODESEPARATOR = 0xAB


class BadScript(Exception):
    pass


def script_ops(script):
    """yield (opcode, data or None, start, end); a truncated push raises BadScript"""
    i = 0
    n = len(script)
    while i < n:
        start = i
        op = script[i]
        i += 1
        data = None
        if op <= 0x4B:
            ln = op
        elif op == 0x4C:
            if i + 1 > n:
                raise BadScript()
            ln = script[i]
            i += 1
        elif op == 0x4D:
            if i + 2 > n:
                raise BadScript()
            ln = struct.unpack("<H", script[i:i + 2])[0]
            i += 2
        elif op == 0x4E:
            if i + 4 > n:
                raise BadScript()
            ln = struct.unpack("<I", script[i:i + 4])[0]
            i += 4
        else:
            yield op, None, start, i
            continue
        if i + ln > n:
            raise BadScript()
        data = script[i:i + ln]
        i += ln
        yield op, data, start, i


def push(data):
    """the minimal push of data"""
    n = len(data)
    if n == 0:
        return b"\x00"
    if n == 1 and 1 <= data[0] <= 16:
        return bytes([0x50 + data[0]])
    if n == 1 and data[0] == 0x81:
        return b"\x4f"
    if n <= 75:
        return bytes([n]) + data
    if n <= 255:
        return b"\x4c" + bytes([n]) + data
    if n <= 65535:
        return b"\x4d" + struct.pack("<H", n) + data
    return b"\x4e" + struct.pack("<I", n) + data


def remove_codeseparators(script):
    out = bytearray()
    try:
        for op, data, a, b in script_ops(script):
            if op != OP_CODESEPARATOR:
                out += script[a:b]
    except BadScript:
        # for a malformed tail nothing more is removed
        return bytes(out) + script[_parsed_upto(script):]
    return bytes(out)


def _parsed_upto(script):
    last = 0
    try:
        for op, data, a, b in script_ops(script):
            last = b
    except BadScript:
        pass
    return last


def find_and_delete(script, sig):
    """remove every opcode-aligned occurrence of `CScript() << sig` (the length-prefixed push of sig)"""
    n = len(sig)
    if n < 0x4C:
        pat = bytes([n]) + sig
    elif n <= 0xFF:
        pat = b"\x4c" + bytes([n]) + sig
    elif n <= 0xFFFF:
        pat = b"\x4d" + struct.pack("<H", n) + sig
    else:
        pat = b"\x4e" + struct.pack("<I", n) + sig
    out = bytearray()
    last = 0
    try:
        for op, data, a, b in script_ops(script):
            if script[a:b] != pat:
                out += script[a:b]
            last = b
    except BadScript:
        # consensus (FindAndDelete): matches in front of an undecodable tail are removed, the tail is kept verbatim
        return bytes(out) + script[last:]
    return bytes(out)


def _ser_out(o):
    return struct.pack("<Q", o["value"]) + compact(len(o["script"])) + o["script"]


def legacy(tx, idx, script_code, hash_type, single_sha=False):
    """script_code: the executing script from the last executed OP_CODESEPARATOR on, with the
    signature already FindAndDelete'd by the caller"""
    script_code = remove_codeseparators(script_code)
    base = hash_type & 0x1F
    if base == SINGLE and idx >= len(tx["outs"]):
        return int.from_bytes(b"\x01" + b"\x00" * 31, "big")
    ins = []
    for j, i in enumerate(tx["ins"]):
        if hash_type & ANYONECANPAY and j != idx:
            continue
        sc = script_code if j == idx else b""
        seq = i["seq"]
        if j != idx and base in (NONE, SINGLE):
            seq = 0
        ins.append(i["prev"] + struct.pack("<I", i["idx"]) + compact(len(sc)) + sc + struct.pack("<I", seq))
    if base == NONE:
        outs = []
    elif base == SINGLE:
        outs = [struct.pack("<q", -1) + b"\x00"] * idx + [_ser_out(tx["outs"][idx])]
    else:
        outs = [_ser_out(o) for o in tx["outs"]]
    pre = (struct.pack("<I", tx["version"] & 0xFFFFFFFF) + compact(len(ins)) + b"".join(ins) + compact(len(outs))
           + b"".join(outs) + struct.pack("<I", tx["locktime"]) + struct.pack("<I", hash_type & 0xFFFFFFFF))
    if single_sha:
        return int.from_bytes(hashlib.sha256(pre).digest(), "big")
    return int.from_bytes(dsha256(pre), "big")


def bip143(tx, idx, script_code, value, hash_type, forkid=None, single_sha=False):
    """BIP143 digest; forkid: None (BTC/BCH: hash type as is) or an int folded in as (forkid << 8)"""
    H = (lambda b: hashlib.sha256(b).digest()) if single_sha else dsha256
    base = hash_type & 0x1F
    acp = bool(hash_type & ANYONECANPAY)
    zero = b"\x00" * 32
    hp = zero if acp else H(b"".join(i["prev"] + struct.pack("<I", i["idx"]) for i in tx["ins"]))
    hs = zero if (acp or base in (NONE, SINGLE)) else H(b"".join(struct.pack("<I", i["seq"]) for i in tx["ins"]))
    if base not in (NONE, SINGLE):
        ho = H(b"".join(_ser_out(o) for o in tx["outs"]))
    elif base == SINGLE and idx < len(tx["outs"]):
        ho = H(_ser_out(tx["outs"][idx]))
    else:
        ho = zero
    ht = hash_type if forkid is None else (hash_type | (forkid << 8))
    i = tx["ins"][idx]
    pre = (struct.pack("<I", tx["version"] & 0xFFFFFFFF) + hp + hs + i["prev"] + struct.pack("<I", i["idx"])
           + compact(len(script_code)) + script_code + struct.pack("<Q", value) + struct.pack("<I", i["seq"]) + ho
           + struct.pack("<I", tx["locktime"]) + struct.pack("<I", ht & 0xFFFFFFFF))
    return int.from_bytes(H(pre), "big")


def p2pkh_script(h160):
    return b"\x76\xa9\x14" + h160 + b"\x88\xac"


def kat():
    from . import ec, wire
    C = ec.SECP256K1
    # BIP143 "Native P2WPKH" example: input 0 is legacy P2PK, input 1 is P2WPKH (6 BTC)
    signed = wire.dec_tx(bytes.fromhex(
        "01000000000102fff7f7881a8099afa6940d42d1e7f6362bec38171ea3edf433541db4e4ad969f00000000494830450221008b9d1dc26ba6a9cb"
        "62127b02742fa9d754cd3bebf337f7a55d114c8e5cdd30be022040529b194ba3f9281a99f2b1c0a19c0489bc22ede944ccf4ecbab4cc618ef3ed"
        "01eeffffffef51e1b804cc89d182d279655c3aa89e815b1b309fe287d9b2b55d57b90ec68a0100000000ffffffff02202cb206000000001976a9"
        "148280b37df378db99f66f85c95a783a76ac7a6d5988ac9093510d000000001976a9143bde42dbee7e4dbe6a21b2d50ce2f0167faa815988ac00"
        "0247304402203609e17b84f6a7d30c80bfa610b5b4542f32a8a0d5447a12fb1366d7f01cc44a0220573a954c4518331561406f90300e8f3358f5"
        "1928d43c212a8caed02de67eebee0121025476c2e83188368da1ff3e292e7acafcdb3566bb0ad253f62fc70f07aeee635711000000"))
    sc = bytes.fromhex("76a9141d0f172a0ecb48aee1be1f2687d2963ae33f71a188ac")
    z = bip143(signed, 1, sc, 600000000, 1)
    assert "%064x" % z == "c37af31116d1b27caf68aae9e3ac82f1477929014d5b917657d0eb49478cb670"

    def der(sig):
        rl = sig[3]
        r = int.from_bytes(sig[4:4 + rl], "big")
        sl = sig[5 + rl]
        return r, int.from_bytes(sig[6 + rl:6 + rl + sl], "big")

    def pt(sec):
        x = int.from_bytes(sec[1:33], "big")
        return C.lift_x(x)[sec[0] & 1]

    w = signed["ins"][1]["witness"]
    assert C.verify(pt(w[1]), z, *der(w[0][:-1]))
    # input 0: P2PK, legacy digest; the signature in scriptSig must verify
    pk = bytes.fromhex("03c9f4836b9a4f77fc0d81f7bcb01b7f1b35916864b9476c241ce9fc198bd25432")
    sig0 = signed["ins"][0]["script"][1:]
    z0 = legacy(signed, 0, push(pk) + b"\xac", 1)
    assert C.verify(pt(pk), z0, *der(sig0[:-1]))
    assert not C.verify(pt(pk), legacy(signed, 0, push(pk) + b"\xac", 2), *der(sig0[:-1]))
    # definition checks
    assert legacy(signed, 5, sc, SINGLE) == 1 << 248
    assert legacy(signed, 0, b"\xab" + sc + b"\xab", 1) == legacy(signed, 0, sc, 1)
    assert legacy(signed, 0, push(b"\xab" * 3) + sc, 1) != legacy(signed, 0, sc, 1)  # 0xab inside a push stays
    assert find_and_delete(push(sig0) + sc + push(sig0), sig0) == sc
    assert bip143(signed, 1, sc, 600000000, 0x41, forkid=79) != bip143(signed, 1, sc, 600000000, 0x41)
    assert bip143(signed, 1, sc, 600000000, 0x41, forkid=0) == bip143(signed, 1, sc, 600000000, 0x41)
    m2 = dict(signed, outs=[dict(signed["outs"][0], value=1), signed["outs"][1]])
    for ht, differs in ((1, True), (2, False), (3, False), (0x83, False), (0x81, True)):
        # input 1 with SINGLE commits to output 1 only; NONE to none; ALL to all
        assert (bip143(m2, 1, sc, 600000000, ht) != bip143(signed, 1, sc, 600000000, ht)) == differs
        assert (legacy(m2, 1, sc, ht) != legacy(signed, 1, sc, ht)) == differs
    # Core's valid-transaction vectors shipped with the repository's tests: every P2PKH spend in them
    # must verify under this model, whatever hash type it uses
    _core_vectors(C, der, pt)


def _core_vectors(C, der, pt):
    import json
    import os
    from . import wire
    from .ripemd import ripemd160
    path = os.path.join(os.environ.get("VERIF_REPO", "/repo"), "tests", "btc", "data", "tx_valid.json")
    if not os.path.exists(path):
        return
    checked = 0
    types = set()
    for row in json.load(open(path)):
        if len(row) != 3 or not isinstance(row[0], list):
            continue
        try:
            tx = wire.dec_tx(bytes.fromhex(row[1]))
        except Exception:
            continue
        prevs = {}
        for p in row[0]:
            prevs[(bytes.fromhex(p[0])[::-1], p[1] & 0xFFFFFFFF)] = p[2]
        for idx, i in enumerate(tx["ins"]):
            spk = prevs.get((i["prev"], i["idx"]))
            if not isinstance(spk, str) or not spk.startswith("DUP HASH160 0x14 0x") or not spk.endswith(" EQUALVERIFY CHECKSIG"):
                continue
            h160 = bytes.fromhex(spk.split("0x14 0x")[1].split(" ")[0])
            try:
                items = [d for op, d, a, b in script_ops(i["script"])]
            except BadScript:
                continue
            if len(items) != 2 or items[0] is None or items[1] is None or len(items[1]) not in (33, 65):
                continue
            sig, sec = items
            if ripemd160(hashlib.sha256(sec).digest()) != h160 or len(sig) < 9:
                continue
            try:
                r, s = der(sig[:-1])
                Q = pt(sec) if len(sec) == 33 else (int.from_bytes(sec[1:33], "big"), int.from_bytes(sec[33:], "big"))
            except Exception:
                continue
            z = legacy(tx, idx, find_and_delete(p2pkh_script(h160), sig), sig[-1])
            if "NULLFAIL" in row[2] or True:
                ok = C.verify(Q, z, r, s)
                # a few vectors carry deliberately odd encodings; only count clean verifications
                if ok:
                    checked += 1
                    types.add(sig[-1])
    assert checked >= 15, checked
    assert len(types) >= 3, sorted(types)
