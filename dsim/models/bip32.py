"""Reference model of BIP32 (and the BIP49/84 text variants), written from the BIP on top of
models/ec.py and models/ripemd.py.  Nodes are plain dicts:
    {"k": int|None, "K": (x, y), "c": bytes, "depth": int, "fp": bytes, "idx": int}
"""
import hashlib
import hmac

from . import ec as mec
from .ripemd import ripemd160

C = mec.SECP256K1
HARD = 0x80000000
_B58 = "123456789ABCDEFGHJKLMNPQRSTUVWXYZabcdefghijkmnopqrstuvwxyz"


def hash160(b):
    return ripemd160(hashlib.sha256(b).digest())


def ser_p(P):
    return bytes([2 + (P[1] & 1)]) + P[0].to_bytes(32, "big")


def b58encode(b):
    n = int.from_bytes(b, "big")
    s = ""
    while n:
        n, r = divmod(n, 58)
        s = _B58[r] + s
    pad = len(b) - len(b.lstrip(b"\0"))
    return "1" * pad + s


def b58decode(s):
    n = 0
    for ch in s:
        n = n * 58 + _B58.index(ch)
    pad = len(s) - len(s.lstrip("1"))
    body = n.to_bytes((n.bit_length() + 7) // 8, "big") if n else b""
    return b"\0" * pad + body


def b58check(b):
    return b58encode(b + hashlib.sha256(hashlib.sha256(b).digest()).digest()[:4])


def b58check_decode(s):
    raw = b58decode(s)
    body, chk = raw[:-4], raw[-4:]
    if hashlib.sha256(hashlib.sha256(body).digest()).digest()[:4] != chk:
        raise ValueError("bad checksum")
    return body


def master(seed):
    I = hmac.new(b"Bitcoin seed", seed, hashlib.sha512).digest()
    k = int.from_bytes(I[:32], "big")
    if k == 0 or k >= C.n:
        return None
    return {"k": k, "K": C.mul_g(k), "c": I[32:], "depth": 0, "fp": b"\0\0\0\0", "idx": 0}


def fingerprint(node):
    return hash160(ser_p(node["K"]))[:4]


def ckd_priv(node, i):
    """private parent -> private child (None when the BIP says the index is invalid)"""
    if i >= HARD:
        data = b"\0" + node["k"].to_bytes(32, "big") + i.to_bytes(4, "big")
    else:
        data = ser_p(node["K"]) + i.to_bytes(4, "big")
    I = hmac.new(node["c"], data, hashlib.sha512).digest()
    il = int.from_bytes(I[:32], "big")
    k = (il + node["k"]) % C.n
    if il >= C.n or k == 0:
        return None
    return {"k": k, "K": C.mul_g(k), "c": I[32:], "depth": node["depth"] + 1, "fp": fingerprint(node), "idx": i}


def ckd_pub(node, i):
    """public parent -> public child; hardened is impossible"""
    if i >= HARD:
        raise ValueError("hardened from public")
    data = ser_p(node["K"]) + i.to_bytes(4, "big")
    I = hmac.new(node["c"], data, hashlib.sha512).digest()
    il = int.from_bytes(I[:32], "big")
    if il >= C.n:
        return None
    K = C.add(C.mul_g(il), node["K"])
    if K is None:
        return None
    return {"k": None, "K": K, "c": I[32:], "depth": node["depth"] + 1, "fp": fingerprint(node), "idx": i}


def neuter(node):
    d = dict(node)
    d["k"] = None
    return d


def serialize74(node, as_private):
    key = (b"\0" + node["k"].to_bytes(32, "big")) if as_private else ser_p(node["K"])
    return bytes([node["depth"] & 0xFF]) + node["fp"] + node["idx"].to_bytes(4, "big") + node["c"] + key


def text(node, as_private, version4):
    return b58check(version4 + serialize74(node, as_private))


# the version bytes this model knows from the BIPs / SLIP-132
VERSIONS = {
    ("BTC", "bip32"): ("0488ade4", "0488b21e"), ("BTC", "bip49"): ("049d7878", "049d7cb2"),
    ("BTC", "bip84"): ("04b2430c", "04b24746"),
    ("XTN", "bip32"): ("04358394", "043587cf"), ("XTN", "bip49"): ("044a4e28", "044a5262"),
    ("XTN", "bip84"): ("045f18bc", "045f1cf6"),
    ("LTC", "bip32"): ("019d9cfe", "019da462"),
}


def kat():
    # BIP32 test vector 1
    m = master(bytes.fromhex("000102030405060708090a0b0c0d0e0f"))
    v = bytes.fromhex("0488ade4"), bytes.fromhex("0488b21e")
    assert text(m, True, v[0]) == "xprv9s21ZrQH143K3QTDL4LXw2F7HEK3wJUD2nW2nRk4stbPy6cq3jPPqjiChkVvvNKmPGJxWUtg6LnF5kejMRNNU3TGtRBeJgk33yuGBxrMPHi"
    assert text(m, False, v[1]) == "xpub661MyMwAqRbcFtXgS5sYJABqqG9YLmC4Q1Rdap9gSE8NqtwybGhePY2gZ29ESFjqJoCu1Rupje8YtGqsefD265TMg7usUDFdp6W1EGMcet8"
    n = ckd_priv(m, HARD + 0)
    assert text(n, True, v[0]) == "xprv9uHRZZhk6KAJC1avXpDAp4MDc3sQKNxDiPvvkX8Br5ngLNv1TxvUxt4cV1rGL5hj6KCesnDYUhd7oWgT11eZG7XnxHrnYeSvkzY7d2bhkJ7"
    n2 = ckd_priv(n, 1)
    assert text(n2, False, v[1]) == "xpub6ASuArnXKPbfEwhqN6e3mwBcDTgzisQN1wXN9BJcM47sSikHjJf3UFHKkNAWbWMiGj7Wf5uMash7SyYq527Hqck2AxYysAA7xmALppuCkwQ"
    assert ckd_pub(neuter(n), 1)["K"] == n2["K"] and ckd_pub(neuter(n), 1)["c"] == n2["c"]
    n3 = ckd_priv(n2, HARD + 2)
    assert text(n3, True, v[0]) == "xprv9z4pot5VBttmtdRTWfWQmoH1taj2axGVzFqSb8C9xaxKymcFzXBDptWmT7FwuEzG3ryjH4ktypQSAewRiNMjANTtpgP4mLTj34bhnZX7UiM"
    # vector 2 master
    m2 = master(bytes.fromhex("fffcf9f6f3f0edeae7e4e1dedbd8d5d2cfccc9c6c3c0bdbab7b4b1aeaba8a5a29f9c999693908d8a8784817e7b7875726f6c696663605d5a5754514e4b484542"))
    assert text(m2, True, v[0]) == "xprv9s21ZrQH143K31xYSDQpPDxsXRTUcvj2iNHm5NUtrGiGG5e2DtALGdso3pGz6ssrdK4PFmM8NSpSBHNqPqm55Qn3LqFtT2emdEXVYsCzC2U"
    c = ckd_priv(m2, 0)
    assert text(c, False, v[1]) == "xpub69H7F5d8KSRgmmdJg2KhpAK8SR3DjMwAdkxj3ZuxV27CprR9LgpeyGmXUbC6wb7ERfvrnKZjXoUmmDznezpbZb7ap6r1D3tgFxHmwMkQTPH"
    # vector 3 (leading zeros retention)
    m3 = master(bytes.fromhex("4b381541583be4423346c643850da4b320e46a87ae3d2a4e6da11eba819cd4acba45d239319ac14f863b8d5ab5a0d0c64d2e8a1e7d1457df2e5a3c51c73235be"))
    assert text(m3, True, v[0]) == "xprv9s21ZrQH143K25QhxbucbDDuQ4naNntJRi4KUfWT7xo4EKsHt2QJDu7KXp1A3u7Bi1j8ph3EGsZ9Xvz9dGuVrtHHs7pXeTzjuxBrCmmhgC6"
    assert b58check_decode(text(m3, True, v[0]))[:4] == v[0]
