"""vcheck: check / replay / kats / selftests.

exit 0 = held on everything explored; 1 = VIOLATION line printed; 2 = harness error.
"""
import argparse
import json
import os
import sys
import time
import traceback

ROOT = os.path.dirname(os.path.dirname(os.path.abspath(__file__)))
REPO = os.environ.get("VERIF_REPO", "/repo")


def _assert_repo():
    import pycoin
    p = os.path.realpath(pycoin.__file__)
    if not p.startswith(os.path.realpath(REPO) + os.sep):
        print("HARNESS-ERROR pycoin imported from %s, expected under %s" % (p, REPO))
        sys.exit(2)


def _workers(n):
    if n:
        return n
    env = os.environ.get("VERIF_WORKERS")
    if env:
        return int(env)
    return min(16, os.cpu_count() or 1)


def cmd_check(a):
    from dsim import registry
    from dsim.kernel import evidence, findings, runner, shrink as shr
    from dsim.kernel.core import has_violation, run_plan
    from dsim.models import kats

    prop = a.prop
    tier = a.tier or os.environ.get("VERIF_TIER") or "quick"
    if tier not in ("quick", "thorough"):
        tier = "quick"
    seed = int(os.environ.get("VERIF_SEED", a.seed if a.seed is not None else 1))
    workers = _workers(a.workers)
    budget = a.budget if a.budget else registry.BUDGET[tier]
    worlds = registry.worlds_for(prop)
    print("VERIF_SEED=%d tier=%s property=%s worlds=%s workers=%d budget_s=%g" % (
        seed, tier, prop, ",".join(w for w, _, _ in worlds), workers, budget), flush=True)
    _assert_repo()
    t0 = time.time()
    try:
        kats.run_for(prop)
    except Exception:
        print("HARNESS-ERROR model KATs failed:\n" + traceback.format_exc())
        return 2

    # determinism spot check (same plan twice in one forked child); the cross-process version is a selftest.
    # This interpreter itself never executes the library under test before the search: every chunk of runs is
    # forked from a clean state.
    for wname, _, _ in worlds:
        try:
            notes = runner.isolated(_det_spot_check, wname, seed, tier, a.det_runs)
        except Exception as e:
            print("HARNESS-ERROR determinism spot check: %s" % (str(e)[-400:],))
            return 2
        for n in notes:
            if n.startswith("HARNESS"):
                print(n)
                return 2
            print(n)

    totals = []
    for wname, share, chunk in worlds:
        tot = runner.search(wname, seed, tier, budget * share, workers, chunk, props=None)
        totals.append(tot)
    harness = [(t["world"], t["harness"], t.get("harness_count", 0)) for t in totals if t.get("harness")]
    has_viol = any(v["property"] == prop for t in totals for v, _ in t.get("violations", []))
    if harness and not has_viol:
        # runs that crashed inside the simulator and no violation anywhere: nothing can be concluded
        for wname, h, n in harness:
            print("HARNESS-ERROR world=%s (%d runs) %s" % (wname, n, h))
        evidence.write(prop, tier, seed, totals, [], [], time.time() - t0, harness=harness[0][1])
        return 2
    for wname, h, n in harness:
        # a violation was found as well: report it (it is a fact about the tree), and say that some runs crashed
        print("NOTE harness exception in world=%s (%d runs): %s" % (wname, n, str(h).strip().splitlines()[-1][:200]))

    known = findings.load()
    multi_tried = 0
    unrepro = []
    new_violations = []
    known_seen = []
    other = {}
    shrink_budget = 60.0 if tier == "quick" else 180.0
    t_shr = time.time()
    if any(v["class"] == "did-not-return" for tot in totals for v, _ in tot.get("violations", [])):
        # some library call never returned: keep the minimisation affordable (every candidate that still hangs costs a
        # full run timeout) by shortening the alarm for the shrink / confirmation phase
        from dsim.kernel import core as _core
        _core.RUN_TIMEOUT_S = 15.0
        os.environ["VERIF_RUN_TIMEOUT"] = "15"
    for tot in totals:
        world = runner.load_world(tot["world"])
        by_class = {}
        for v, plan in tot.get("violations", []):
            if v["property"] != prop:
                other[v["property"] + "|" + v["class"]] = other.get(v["property"] + "|" + v["class"], 0) + 1
                continue
            by_class.setdefault(v["class"], []).append((v, plan))
        for cls in sorted(by_class):
            fps = {}
            for v, plan in by_class[cls][:24]:
                remaining = shrink_budget - (time.time() - t_shr)
                if remaining <= 1 and fps:
                    break
                from dsim.kernel import multi
                if cls == "did-not-return" and fps:
                    break   # one replay of a hang is enough
                small, info = shr.shrink(world, plan, prop, cls, wall_s=max(2.0, min(20.0, remaining)))
                fresh = multi.in_fresh_process(tot["world"], [small], prop, cls) if info.get("reproduced") else None
                if not (fresh and fresh["reproduced"]):
                    # in-process shrinking is unreliable when the library keeps state between objects: redo it with
                    # every candidate in a forked child, then confirm in a fresh interpreter
                    small, info = shr.shrink(world, plan, prop, cls, wall_s=max(5.0, min(30.0, remaining)), isolate=True)
                    fresh = multi.in_fresh_process(tot["world"], [small], prop, cls) if info.get("reproduced") else None
                vv = fresh["violation"] if (fresh and fresh["reproduced"]) else None
                multi_plans = None
                if vv is not None:
                    class _F(object):
                        faults = {}

                        def digest(self_inner, _d=fresh["digest"]):
                            return _d
                    ctx = _F()
                if vv is None:
                    # the violation needs the runs executed before it in the same interpreter: the library keeps
                    # state between independent objects.  Replay the whole sequence in a fresh interpreter.
                    if multi_tried >= 3:
                        continue
                    multi_tried += 1
                    cs = plan.get("chunk_start", plan.get("index", 0))
                    seq = []
                    for ix in range(cs, plan["index"] + 1):
                        seq.append(_regen(runner, world, seed, tier, ix))
                    r0 = multi.in_fresh_process(tot["world"], seq, prop, cls)
                    if not r0 or not r0["reproduced"]:
                        unrepro.append((tot["world"], cls, plan.get("index")))
                        continue
                    seq = multi.shrink_prefix(tot["world"], seq, prop, cls)
                    r1 = multi.in_fresh_process(tot["world"], seq, prop, cls)
                    if not r1 or not r1["reproduced"]:
                        unrepro.append((tot["world"], cls, plan.get("index")))
                        continue
                    vv = r1["violation"]
                    small = seq[-1]
                    multi_plans = seq
                    info = {"execs": 0, "reproduced": True, "multi_run_history": len(seq)}

                    class _C(object):
                        faults = {}

                        def digest(self_inner):
                            return r1["digest"]
                    ctx = _C()
                fp = world.fingerprint(small, vv)
                if multi_plans is not None:
                    fp = "after %d earlier run(s) in the same process: %s" % (len(multi_plans) - 1, fp)
                if fp in fps:
                    continue
                fps[fp] = True
                if sum(1 for r in new_violations if r["violation"]["class"] == cls) >= a.max_report \
                        and not findings.match(known, prop, cls, fp):
                    continue
                kf = findings.match(known, prop, cls, fp)
                rec = {"plan": small, "plans": multi_plans, "violation": vv, "fingerprint": fp, "world": tot["world"],
                       "shrunk_from_steps": len(plan["steps"]), "shrink": info, "digest": ctx.digest(),
                       "faults": ctx.faults}
                if kf:
                    known_seen.append((kf, rec))
                else:
                    new_violations.append(rec)

    if unrepro and not new_violations and not known_seen:
        for w_, c_, i_ in unrepro[:3]:
            print("HARNESS-ERROR violation did not reproduce, neither alone nor after the runs before it (world=%s class=%s index=%s)" % (w_, c_, i_))
        return 2
    printed_known = set()
    for kf, rec in known_seen:
        key = (kf["class"], kf["fingerprint"])
        if key in printed_known:
            continue
        printed_known.add(key)
        print("KNOWN-FINDING: property=%s %s [%s]" % (prop, kf["what"], kf["fingerprint"]))

    replay_paths = []
    for n, rec in enumerate(new_violations):
        path = evidence.write_replay(prop, seed, tier, rec, n)
        replay_paths.append(path)
        print("VIOLATION property=%s replay=%s" % (prop, path))
        print("  class=%s step=%s fingerprint=%s" % (rec["violation"]["class"], rec["violation"]["step"], rec["fingerprint"]))
        print("  detail=%s" % json.dumps(rec["violation"]["detail"], default=repr)[:600])
    evidence.write(prop, tier, seed, totals, new_violations, known_seen, time.time() - t0, other=other)
    runs = sum(t["runs"] for t in totals)
    print("runs=%d steps=%d wall_s=%.1f violations=%d known=%d" % (
        runs, sum(t["steps"] for t in totals), time.time() - t0, len(new_violations), len(printed_known)))
    return 1 if new_violations else 0


def _det_spot_check(wname, seed, tier, n):
    from dsim.kernel import runner
    world = runner.load_world(wname)
    notes = []
    for i in range(n):
        p1, c1 = runner.one_run(world, seed, tier, 10_000_000 + i)
        p2, c2 = runner.one_run(world, seed, tier, 10_000_000 + i)
        if p1 != p2:
            notes.append("HARNESS-ERROR nondeterministic planner world=%s index=%d" % (wname, 10_000_000 + i))
            break
        if c1.digest() != c2.digest():
            # same plan, same process, different observations: the library under test keeps state between
            # independent objects (the simulator itself is checked by selftest-determinism on the unchanged tree).
            # Not an abort: the invariants decide; violations that need earlier runs are replayed as multi-run histories.
            notes.append("NOTE executing one plan twice in one process gave different observations (world=%s index=%d): "
                         "state is kept between runs" % (wname, 10_000_000 + i))
            break
    return notes


def _regen(runner, world, seed, tier, ix):
    from dsim.kernel.rng import Rng, run_seed
    sd = run_seed(seed, world.NAME, ix)
    plan = world.gen_plan(Rng(sd), tier, ix)
    plan.setdefault("world", world.NAME)
    plan["run_seed"] = "%064x" % sd
    plan["index"] = ix
    return plan


def cmd_replay(a):
    from dsim.kernel import runner
    from dsim.kernel.core import has_violation, run_plan
    _assert_repo()
    with open(a.path) as f:
        rp = json.load(f)
    world = runner.load_world(rp["world"])
    if rp.get("plans"):
        # a history spanning several runs of one process: execute them in order, judge the last
        from dsim.kernel import multi
        ctx = multi.run_sequence(world, rp["plans"], keep_log=True)
    else:
        ctx = run_plan(world, rp["plan"], keep_log=True)
    exp = rp["expect"]
    v = has_violation(ctx, rp["property"], exp["class"])
    if a.verbose:
        for line in ctx.log:
            print(line)
    if v is not None:
        same_step = v["step"] == exp.get("at_step")
        print("VIOLATION property=%s replay=%s" % (rp["property"], a.path))
        print("  class=%s step=%s (expected step %s%s) digest_match=%s" % (
            v["class"], v["step"], exp.get("at_step"), "" if same_step else " MISMATCH",
            ctx.digest() == rp.get("digest")))
        print("  detail=%s" % json.dumps(v["detail"], default=repr)[:800])
        return 1
    print("not reproduced: property=%s class=%s (other violations: %s)" % (
        rp["property"], exp["class"], [(x["property"], x["class"]) for x in ctx.violations]))
    return 0


def cmd_reach(a):
    """harness self-test: every declared fault kind and probe must have fired in the last evidence of each check"""
    import glob
    bad = 0
    for f in sorted(glob.glob(os.path.join(ROOT, "evidence", "*.json"))):
        e = json.load(open(f))
        for w, info in e["coverage"].get("worlds", {}).items():
            uf, up = info.get("unreached_faults", []), info.get("unreached_probes", [])
            allowed = {"lock_raised", "libsecp256k1_replica", "observed_txdb_returned_unrequested_tx"}
            up = [x for x in up if x not in allowed]
            print("%s %-8s runs=%-8d unreached faults=%s probes=%s" % (e["property_id"], w, info["runs"], uf, up))
            bad += len(uf) + len(up)
    print("reach self-test: %d unreached counters (lock_raised, libsecp256k1_replica and observed_* are expected to stay at zero)" % bad)
    return 1 if bad else 0


def cmd_kats(a):
    from dsim.models import kats
    _assert_repo()
    kats.run_all(verbose=True)
    print("KATs ok")
    return 0


def cmd_run(a):
    """debug: execute a range of runs of one world in-process and print violations"""
    from dsim.kernel import runner
    _assert_repo()
    world = runner.load_world(a.world)
    seed = int(os.environ.get("VERIF_SEED", a.seed))
    nviol = 0
    t0 = time.time()
    for i in range(a.start, a.start + a.n):
        plan, ctx = runner.one_run(world, seed, a.tier, i, keep_log=a.verbose)
        if a.verbose:
            print(json.dumps(plan, default=repr)[:3000])
            for line in ctx.log:
                print("   ", line[:400])
        for v in ctx.violations:
            nviol += 1
            if nviol <= a.show:
                print("run %d: %s" % (i, json.dumps(v, default=repr)[:500]))
    print("runs=%d violations=%d wall=%.2fs" % (a.n, nviol, time.time() - t0))
    return 0


def main(argv=None):
    ap = argparse.ArgumentParser(prog="vcheck")
    sub = ap.add_subparsers(dest="cmd", required=True)
    c = sub.add_parser("check")
    c.add_argument("prop")
    c.add_argument("--tier", default=None)
    c.add_argument("--seed", type=int, default=None)
    c.add_argument("--budget", type=float, default=None)
    c.add_argument("--workers", type=int, default=None)
    c.add_argument("--det-runs", type=int, default=10)
    c.add_argument("--max-report", type=int, default=2, help="replay files written per violation class")
    c.set_defaults(f=cmd_check)
    r = sub.add_parser("replay")
    r.add_argument("path")
    r.add_argument("-v", "--verbose", action="store_true")
    r.set_defaults(f=cmd_replay)
    k = sub.add_parser("kats")
    k.set_defaults(f=cmd_kats)
    rr = sub.add_parser("selftest-reach")
    rr.set_defaults(f=cmd_reach)
    d = sub.add_parser("run")
    d.add_argument("world")
    d.add_argument("--seed", type=int, default=1)
    d.add_argument("--start", type=int, default=0)
    d.add_argument("--n", type=int, default=100)
    d.add_argument("--tier", default="quick")
    d.add_argument("--show", type=int, default=5)
    d.add_argument("-v", "--verbose", action="store_true")
    d.set_defaults(f=cmd_run)
    from dsim.selftest import determinism, mutants
    s1 = sub.add_parser("selftest-determinism")
    s1.add_argument("--seeds", type=int, default=200)
    s1.add_argument("--worlds", default=None)
    s1.add_argument("--tier", default="quick")
    s1.set_defaults(f=determinism.main)
    s2 = sub.add_parser("selftest-mutants")
    s2.add_argument("--only", default=None)
    s2.add_argument("--budget", type=float, default=None)
    s2.add_argument("--tier", default="quick")
    s2.add_argument("--seeded", action="store_true", help="also run /verif/seeded/*/patch.diff")
    s2.set_defaults(f=mutants.main)
    a = ap.parse_args(argv)
    try:
        rc = a.f(a)
    except SystemExit:
        raise
    except Exception:
        print("HARNESS-ERROR " + traceback.format_exc())
        rc = 2
    sys.exit(rc)


if __name__ == "__main__":
    main()
