"""A simulated file system behind pycoin.services.tx_db (which only uses open(), os.path.exists,
os.path.join and os.makedirs).  Injected by shadowing the module globals `open` and `os`.

Files have one content (TxDb never syncs, so there is no durable/volatile split to honour at the
API level); what survives a crash is decided by the plan per recently written file: intact, torn
(a prefix), empty, or lost.  Faults at I/O time: open() errors (EIO/EACCES/ENOSPC), write errors
after k bytes (leaving the partial file behind, as a real full disk does), read errors after k
bytes.  Faults at rest: bit flips, misdirected writes.
"""
import errno
import io
import posixpath


class SimFS(object):
    def __init__(self):
        self.files = {}          # path -> bytes
        self.dirs = set()
        self.write_order = []    # paths in order of last write
        self.open_error = None   # ("r"|"w", errno) for the next matching open
        self.write_fail_after = None  # bytes after which the next written file raises ENOSPC
        self.read_fail_after = None   # bytes after which the next read file raises EIO
        self.fired = {}
        self.reads = 0
        self.writes = 0

    # -- module shims ---------------------------------------------------------------------
    def open(self, path, mode="r", *a, **kw):
        if "b" not in mode:
            raise ValueError("SimFS: text mode not supported")
        if "w" in mode:
            if self.open_error and self.open_error[0] == "w":
                e = self.open_error[1]
                self.open_error = None
                self._fire("open_w_error")
                raise OSError(e, "simulated", path)
            d = posixpath.dirname(path)
            if d and d not in self.dirs:
                raise FileNotFoundError(errno.ENOENT, "No such file or directory", path)
            self.writes += 1
            limit = self.write_fail_after
            self.write_fail_after = None
            return _WFile(self, path, limit)
        if self.open_error and self.open_error[0] == "r":
            e = self.open_error[1]
            self.open_error = None
            self._fire("open_r_error")
            raise OSError(e, "simulated", path)
        if path not in self.files:
            raise FileNotFoundError(errno.ENOENT, "No such file or directory", path)
        self.reads += 1
        limit = self.read_fail_after
        self.read_fail_after = None
        return _RFile(self, self.files[path], limit)

    def exists(self, path):
        return path in self.files or path in self.dirs

    def makedirs(self, path, *a, **kw):
        parts = path.strip("/").split("/")
        cur = ""
        for p in parts:
            cur = cur + "/" + p
            self.dirs.add(cur)

    def _fire(self, kind):
        self.fired[kind] = self.fired.get(kind, 0) + 1

    def os_shim(self):
        fs = self

        class _Path(object):
            exists = staticmethod(fs.exists)
            join = staticmethod(posixpath.join)

        class _Os(object):
            path = _Path
            makedirs = staticmethod(fs.makedirs)

        return _Os

    # -- faults at rest -------------------------------------------------------------------
    def flip(self, path, offset, bit):
        b = self.files.get(path)
        if not b:
            return False
        ba = bytearray(b)
        ba[offset % len(ba)] ^= 1 << bit
        self.files[path] = bytes(ba)
        return True

    def crash(self, outcomes):
        """outcomes apply to the most recently written files, newest first"""
        recent = list(reversed(self.write_order))
        n = 0
        for path, oc in zip(recent, outcomes):
            if path not in self.files:
                continue
            if oc == "lost":
                del self.files[path]
                n += 1
            elif oc == "empty":
                self.files[path] = b""
                n += 1
            elif isinstance(oc, list) and oc[0] == "torn":
                b = self.files[path]
                if len(b) > 1:
                    self.files[path] = b[: 1 + oc[1] % (len(b) - 1)]
                    n += 1
        self.write_order = []
        self.open_error = self.write_fail_after = self.read_fail_after = None
        return n


class _WFile(object):
    def __init__(self, fs, path, limit):
        self.fs, self.path, self.limit = fs, path, limit
        self.buf = bytearray()
        fs.files[path] = b""   # O_TRUNC happens at open
        if path in fs.write_order:
            fs.write_order.remove(path)
        fs.write_order.append(path)

    def write(self, b):
        if self.limit is not None and len(self.buf) + len(b) > self.limit:
            room = max(0, self.limit - len(self.buf))
            self.buf += b[:room]
            self.fs.files[self.path] = bytes(self.buf)
            self.fs._fire("write_enospc")
            raise OSError(errno.ENOSPC, "No space left on device (simulated)", self.path)
        self.buf += b
        return len(b)

    def close(self):
        self.fs.files[self.path] = bytes(self.buf)

    def __enter__(self):
        return self

    def __exit__(self, *a):
        self.close()
        return False


class _RFile(object):
    def __init__(self, fs, data, limit):
        self.fs = fs
        self.f = io.BytesIO(data)
        self.limit = limit

    def read(self, n=-1):
        if self.limit is not None:
            pos = self.f.tell()
            if n < 0 or pos + n > self.limit:
                self.fs._fire("read_eio")
                raise OSError(errno.EIO, "Input/output error (simulated)")
        return self.f.read(n)

    def tell(self):
        return self.f.tell()

    def close(self):
        pass

    def __enter__(self):
        return self

    def __exit__(self, *a):
        return False
