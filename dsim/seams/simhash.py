"""Header ids whose hash-table slot is chosen by the plan.

ChainFinder/BlockChain treat header hashes as opaque hashable values and keep them in sets that
they pop from and iterate over.  With real 32-byte ids that order is a function of
PYTHONHASHSEED; here it is a function of the plan: __hash__ returns the plan's slot for the
label, __eq__ compares labels.  Equal labels always carry equal slots, so dict/set semantics
are those of ordinary immutable keys.
"""


class SimHash(object):
    __slots__ = ("label", "slot")

    def __init__(self, label, slot):
        self.label = label
        self.slot = slot

    def __hash__(self):
        return self.slot

    def __eq__(self, other):
        return isinstance(other, SimHash) and other.label == self.label

    def __ne__(self, other):
        return not self.__eq__(other)

    def __repr__(self):
        return "<%s>" % self.label

    # b2h_rev() in BlockChain.__repr__ slices the hash; keep that path alive
    def __getitem__(self, item):
        return self.label.encode()[item]


class SimHeader(object):
    """what a peer's `headers` message yields in configuration A"""
    __slots__ = ("_h", "previous_block_hash", "difficulty", "label")

    def __init__(self, h, parent, weight):
        self._h = h
        self.previous_block_hash = parent
        self.difficulty = weight
        self.label = h.label

    def hash(self):
        return self._h

    def __repr__(self):
        return "Hdr(%s<-%s w%s)" % (self._h.label, self.previous_block_hash.label, self.difficulty)


class SimBytes(bytes):
    """a bytes value whose hash-table slot does not depend on PYTHONHASHSEED (it is a function of its content).

    Library code that puts transaction hashes into a set and iterates over it (Tx.validate_unspents) then visits
    them in an order that is a function of the plan alone.  Only ever mixed with other SimBytes in one set / dict
    (a plain bytes object that compares equal would hash differently): the worlds convert at the seam."""
    __slots__ = ()

    def __hash__(self):
        return int.from_bytes(self[:7], "little") ^ len(self)

    def __eq__(self, other):
        return bytes.__eq__(self, other)

    def __ne__(self, other):
        return bytes.__ne__(self, other)
