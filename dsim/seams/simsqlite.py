"""SQLite connection proxy for pycoin.key.Keychain: statement-level fault injection and crash.

The real sqlite3 (in-memory) does the work; the proxy decides, from the plan, which statement
raises sqlite3.OperationalError (disk I/O error / database is locked) *before* reaching SQLite.
A crash is `rollback()` of whatever was not committed; durable state is exactly what SQLite
holds after the rollback.
"""
import sqlite3


class _Cursor(object):
    def __init__(self, proxy, cur):
        self._proxy = proxy
        self._cur = cur

    def execute(self, sql, args=()):
        self._proxy._before_statement(sql)
        return self._cur.execute(sql, args)

    def fetchone(self):
        return self._cur.fetchone()

    def fetchall(self):
        return self._cur.fetchall()

    def __iter__(self):
        return iter(self._cur)


class SimConnection(object):
    def __init__(self):
        object.__setattr__(self, "_conn", sqlite3.connect(":memory:"))
        object.__setattr__(self, "_fail_in", None)   # fail the k-th statement from now (1 = next)
        object.__setattr__(self, "_fail_commit", False)
        object.__setattr__(self, "statements", 0)
        object.__setattr__(self, "faults_fired", 0)

    # Keychain sets text_factory on the connection
    def __setattr__(self, k, v):
        if k in ("_fail_in", "_fail_commit", "statements", "faults_fired"):
            object.__setattr__(self, k, v)
        else:
            setattr(self._conn, k, v)

    def __getattr__(self, k):
        return getattr(self._conn, k)

    def arm(self, k):
        self._fail_in = k

    def disarm(self):
        self._fail_in = None
        self._fail_commit = False

    def _before_statement(self, sql):
        self.statements += 1
        if self._fail_in is not None:
            self._fail_in -= 1
            if self._fail_in <= 0:
                self._fail_in = None
                self.faults_fired += 1
                raise sqlite3.OperationalError("disk I/O error (simulated)")

    def cursor(self):
        return _Cursor(self, self._conn.cursor())

    def commit(self):
        if self._fail_commit:
            self._fail_commit = False
            self.faults_fired += 1
            raise sqlite3.OperationalError("database is locked (simulated)")
        return self._conn.commit()

    def rollback(self):
        return self._conn.rollback()

    def crash(self):
        """process dies: uncommitted work is gone"""
        self._conn.rollback()
        self.disarm()
