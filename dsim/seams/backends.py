"""Arithmetic back ends as replicas, and the entropy seam.

* SimGenerator: pycoin's Generator with the documented `entropy_f` parameter made reachable
  (Generator.__new__ does not accept it), so the *real* __init__ runs with plan-chosen bytes.
* replica classes are built in-process exactly the way pycoin/ecdsa/secp256k1.py builds the
  production class, under a chosen value of PYCOIN_NATIVE (the factory reads it at call time).
"""
import os

_CLASS_CACHE = {}


def sim_generator_class():
    from pycoin.ecdsa.Generator import Generator

    c = _CLASS_CACHE.get("sim")
    if c is None:
        class SimGenerator(Generator):
            def __new__(cls, p, a, b, basis, order, entropy_f=None):
                return tuple.__new__(cls, basis)
        c = _CLASS_CACHE["sim"] = SimGenerator
    return c


def replica_class(kind, nid=None, env=None):
    """kind: 'pure' | 'factory' (OpenSSL factory under PYCOIN_NATIVE=env; env None = unset)
    returns (class, actually_native: bool)"""
    key = (kind, nid, env)
    if key in _CLASS_CACHE:
        return _CLASS_CACHE[key]
    Sim = sim_generator_class()
    if kind == "pure":
        out = (Sim, False)
    else:
        from pycoin.ecdsa.native import openssl
        saved = os.environ.get("PYCOIN_NATIVE")
        try:
            if env is None:
                os.environ.pop("PYCOIN_NATIVE", None)
            else:
                os.environ["PYCOIN_NATIVE"] = env
            mix = openssl.create_OpenSSLOptimizations(nid)
        finally:
            if saved is None:
                os.environ.pop("PYCOIN_NATIVE", None)
            else:
                os.environ["PYCOIN_NATIVE"] = saved
        native = hasattr(mix, "multiply")
        cls = type("Replica_%s_%s" % (nid, env), (mix, Sim), {})
        out = (cls, native)
    _CLASS_CACHE[key] = out
    return out


def entropy_f_for(data):
    def f(n):
        return data
    return f


def set_blinding(gen, data):
    """what Generator.__init__ does with its entropy, applied to an existing instance"""
    order = gen.order()
    gen._blinding_factor = int.from_bytes(data, "big") % order
    gen._minus_blinding_factor_g = gen.raw_mul(-gen._blinding_factor)


def libsecp256k1_present():
    from pycoin.ecdsa.native import secp256k1
    return secp256k1.libsecp256k1 is not None


def openssl_present():
    from pycoin.ecdsa.native import openssl
    return bool(openssl.OpenSSL)
