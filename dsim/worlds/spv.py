"""S-SPV: blocks and BIP37 inclusion proofs arriving from untrusted peers over a corrupting
channel (C14), and the Bloom filter as a stateful object matched by a simulated peer (C19).

Full-node peers are the *model* (models/wire.py builds the bytes, models/merkle.py the roots and
partial trees, models/murmur.py the peer-side filter matching).  The SPV client is real pycoin:
Block.parse / parse_as_header / id / hash, merkle(), network.message.parse('merkleblock' |
'block' | 'filterload'), BloomFilter.
"""
import hashlib
import io
import struct

from dsim.kernel.core import HarnessError, jdump
from dsim.models import merkle as mm
from dsim.models import murmur as mmur
from dsim.models import wire as mw

NAME = "spv"
PROPS = ["C14", "C19"]
COMPONENTS = {
    "real": ["pycoin.block.Block (parse, parse_as_header, stream, id, hash, check_merkle_hash)", "pycoin.merkle.merkle",
             "network.message.parse/pack for block, merkleblock, filterload", "post_unpack_merkleblock",
             "pycoin.bloomfilter.BloomFilter + murmur3", "Tx.parse/stream underneath (BTC and LTC classes)"],
    "stub": ["full-node peers (model builds blocks, roots, proofs, filter matching)", "the channel (plan-chosen corruption)"],
}
RULE = ("plans = block (tx count over powers of two / odd sizes) x match subset x channel corruption class x header "
        "mutation history x watch history on a long-lived filter; non-trivial iff something crossed the channel corrupted, "
        "a header was mutated and re-identified, or a filter with >= 2 elements was matched by the peer")
FAULT_KINDS = ["proof_hash_altered", "proof_hash_added", "proof_hash_removed", "proof_padding_bit_set", "proof_root_differs",
               "proof_flag_bit_flipped", "proof_extra_flag_byte", "block_tx_byte_flipped", "block_truncated",
               "block_header_root_altered", "header_field_mutated", "block_txs_edited_in_place"]
PROBES = ["block_roundtrip", "block_odd_tx_count", "block_pow2_tx_count", "block_1_tx", "block>=64_tx", "proof_honest_accepted",
          "proof_none_matched", "proof_all_matched", "corrupt_block_rejected_merkle", "corrupt_block_rejected_parse",
          "corrupt_block_accepted_root_consistent", "corrupt_proof_rejected", "flagflip_proof_accepted_sound",
          "filter_multi_element_match", "filter_size_1", "filter_size>=1000", "tweak>=2^32", "nfuncs_0", "nfuncs>=20",
          "filterload_roundtrip", "merkle_direct", "ltc_block", "witness_tx_in_block", "proof_relayed_again"]


# ---------------------------------------------------------------------------------------------
# planning: concrete model blocks
# ---------------------------------------------------------------------------------------------

def _gen_tx(r, k):
    nin = r.weighted([(1, 6), (2, 2), (3, 1)])
    nout = r.weighted([(1, 5), (2, 3), (0, 1), (3, 1)])
    wit = r.chance(0.2)
    ins = []
    for j in range(nin):
        ins.append({"prev": r.bytes(32).hex(), "idx": r.pick([0, 1, 2, 0xFFFFFFFF, r.bits(32)]),
                    "script": r.bytes(r.pick([0, 1, 20, 72, 107])).hex(), "seq": r.pick([0xFFFFFFFF, 0xFFFFFFFE, 0, r.bits(32)]),
                    "witness": [r.bytes(r.pick([0, 1, 33, 72])).hex() for _ in range(r.between(1, 3))] if (wit and r.chance(0.7)) else []})
    outs = [{"value": r.pick([0, 1, 546, 50 * 10**8, r.bits(63)]), "script": r.bytes(r.pick([0, 22, 25, 34])).hex()}
            for _ in range(nout)]
    return {"version": r.pick([1, 2, r.bits(32)]), "ins": ins, "outs": outs, "locktime": r.pick([0, 0, 500000, r.bits(32)])}


def _ntx(r, tier):
    big = 2049 if tier == "thorough" else 300
    if r.chance(0.004 if tier == "thorough" else 0.0015):
        return r.pick([4095, 4096, 4097])   # the transaction count itself across 0xfff / 0x1000
    return r.weighted([(1, 3), (2, 3), (3, 3), (4, 2), (5, 2), (7, 2), (8, 2), (9, 1), (15, 1), (16, 1), (17, 1), (31, 1), (33, 1),
                       (r.between(1, 40), 8), (r.pick([63, 64, 65, 127, 128, 129, 255, 257]), 1), (r.between(40, big), 1)])


def gen_plan(rng, tier, index, config=None):
    net = config or rng.weighted([("BTC", 8), ("LTC", 2)])
    r = rng.fork("ops")
    steps = []
    nblocks = 0
    nsteps = r.between(3, 14)
    have_filter = False
    while len(steps) < nsteps:
        op = r.weighted([("mine", 3 if nblocks < 3 else 0), ("send_block", 4 if nblocks else 0),
                         ("send_proof", 8 if nblocks else 0), ("mutate", 3 if nblocks else 0), ("merkle", 2),
                         ("filter_new", 2 if not have_filter else 0.3), ("watch", 5 if have_filter else 0),
                         ("filterload", 1 if have_filter else 0), ("send_filtered", 3 if (have_filter and nblocks) else 0)])
        if op == "mine":
            n = _ntx(r, tier)
            txs = [_gen_tx(r, k) for k in range(n)]
            if n > 40:
                # keep big blocks cheap: tiny transactions
                for t in txs:
                    t["ins"] = t["ins"][:1]
                    t["outs"] = t["outs"][:1]
            elif r.chance(0.12):
                # one transaction with a script across a compact-size boundary (lengths as hex of a repeated byte keep the
                # plan small: the executor expands "rep:<n>")
                ln = r.pick([0xFC, 0xFD, 0xFFF, 0x1000, 0x1001, 0x7FFF, 0xFFFF, 0x10000])
                t = txs[r.below(n)]
                if r.chance(0.5) or not t["outs"]:
                    t["ins"][0]["script"] = "rep:%d" % ln
                else:
                    t["outs"][0]["script"] = "rep:%d" % ln
            steps.append({"op": "mine", "id": "b%d" % nblocks, "txs": txs,
                          "hdr": {"version": r.pick([1, 2, 0x20000000]), "prev": r.bytes(32).hex(), "time": r.bits(32),
                                  "bits": r.pick([0x1d00ffff, 0x207fffff, r.bits(32)]), "nonce": r.bits(32)}})
            nblocks += 1
        elif op == "send_block":
            corr = r.weighted([(None, 4), ("flip_tx_byte", 5), ("truncate", 1), ("alter_header_root", 2)])
            steps.append({"op": "send_block", "block": "b%d" % r.below(nblocks), "corrupt": corr, "pos": r.bits(32),
                          "bit": r.below(8), "via": r.pick(["Block.parse", "message", "from_bin", "offsets", "header_only", "no_merkle_check"])})
        elif op == "send_proof":
            corr = r.weighted([(None, 4), ("alter_hash", 3), ("add_hash", 2), ("remove_hash", 2), ("set_padding", 2),
                               ("alter_root", 2), ("flip_flag", 2), ("extra_flag_byte", 1)])
            mode = r.weighted([("none", 1), ("all", 1), ("one", 3), ("few", 3), ("half", 2)])
            steps.append({"op": "send_proof", "block": "b%d" % r.below(nblocks), "match_mode": mode, "match_seed": r.bits(32),
                          "corrupt": corr, "pos": r.bits(32), "bit": r.below(8), "repeat": r.pick([0, 0, 1, 2])})
        elif op == "mutate":
            steps.append({"op": "mutate", "block": "b%d" % r.below(nblocks),
                          "field": r.pick(["nonce", "set_nonce", "timestamp", "difficulty", "version", "merkle_root",
                                           "previous_block_hash", "txs_inplace", "txs_inplace"]), "value": r.bits(32), "bytes": r.bytes(32).hex(),
                          "edit": r.pick(["append_dup", "pop", "swap", "tx_version", "tx_locktime", "none", "restore_root"])})
        elif op == "merkle":
            n = _ntx(r, tier)
            steps.append({"op": "merkle", "n": n, "seed": r.bits(64)})
        elif op == "filter_new":
            size = r.weighted([(1, 2), (2, 1), (3, 2), (r.between(1, 40), 6), (r.between(100, 2000), 2), (36000, 1)])
            steps.append({"op": "filter_new", "size": size, "nfuncs": r.weighted([(0, 1), (1, 2), (5, 3), (11, 2), (r.between(0, 50), 3)]),
                          "tweak": r.weighted([(0, 2), (2147483649, 1), (0xFFFFFFFF, 1), (r.bits(32), 4), (r.bits(40), 2), (1 << 32, 1)])})
            have_filter = True
        elif op == "watch":
            kind = r.weighted([("item", 3), ("hash160", 2), ("address", 2), ("spendable", 2), ("txid_of_block", 3 if nblocks else 0)])
            st = {"op": "watch", "kind": kind, "data": r.bytes(r.pick([0, 1, 3, 4, 5, 20, 32, 33, 36, 65])).hex()}
            if kind in ("hash160", "address"):
                # (shapes: a hash beginning with zero bytes gives an address with several leading '1's)
                st["data"] = r.weighted([(r.bytes(20), 6), (b"\0" + r.bytes(19), 1.5), (bytes(3) + r.bytes(17), 0.5), (bytes(20), 0.3),
                                         (r.bytes(19) + b"\0", 0.5)]).hex()
            elif kind == "spendable":
                st["data"] = r.bytes(32).hex()
                st["idx"] = r.pick([0, 1, 0xFFFFFFFF, r.bits(32)])
            elif kind == "txid_of_block":
                st["block"] = "b%d" % r.below(nblocks)
                st["pick"] = r.bits(16)
            steps.append(st)
        elif op == "filterload":
            steps.append({"op": "filterload", "flags": r.pick([0, 1])})  # pycoin declares nFlags as a boolean: 2 is not expressible (C16 territory, not claimed)
        elif op == "send_filtered":
            steps.append({"op": "send_proof", "block": "b%d" % r.below(nblocks), "match_mode": "filter", "match_seed": 0,
                          "corrupt": None, "pos": 0, "bit": 0})
    if have_filter and r.chance(0.25):
        # the wallet builds its filter again (after a reconnect, say): same parameters, same items, same order
        fsteps = [x for x in steps if x["op"] in ("filter_new", "watch")]
        last_new = max(i for i, x in enumerate(fsteps) if x["op"] == "filter_new")
        steps.extend(dict(x) for x in fsteps[last_new:])
        if r.chance(0.5):
            steps.append({"op": "filterload", "flags": r.pick([0, 1])})
    return {"world": NAME, "config": {"name": net, "network": net}, "steps": steps}


# ---------------------------------------------------------------------------------------------
# execution
# ---------------------------------------------------------------------------------------------

def _scr(x):
    if x.startswith("rep:"):
        return b"\x6a" * int(x[4:])
    return bytes.fromhex(x)


def _mtx(t):
    return {"version": t["version"],
            "ins": [{"prev": bytes.fromhex(i["prev"]), "idx": i["idx"], "script": _scr(i["script"]), "seq": i["seq"],
                     "witness": [bytes.fromhex(w) for w in i["witness"]]} for i in t["ins"]],
            "outs": [{"value": o["value"], "script": _scr(o["script"])} for o in t["outs"]],
            "locktime": t["locktime"]}


class _W(object):
    pass


def execute(plan, ctx):
    from pycoin.networks.registry import network_for_netcode
    W = _W()
    W.net = network_for_netcode(plan["config"]["network"])
    if plan["config"]["network"] == "LTC":
        ctx.probe("ltc_block")
    W.blocks = {}
    W.filter = None
    for i, st in enumerate(plan["steps"]):
        ctx.step = i
        ctx.steps_run += 1
        f = _OPS.get(st.get("op"))
        if f is not None:
            f(ctx, W, st)


def _op_mine(ctx, W, st):
    txs = [_mtx(t) for t in st["txs"]]
    if not txs:
        return
    ids = [mw.txid(t) for t in txs]
    h = st["hdr"]
    hdr = {"version": h["version"], "prev": bytes.fromhex(h["prev"]), "merkle": mm.merkle_root(ids), "time": h["time"],
           "bits": h["bits"], "nonce": h["nonce"]}
    raw = mw.enc_block(hdr, txs)
    n = len(txs)
    if n == 1:
        ctx.probe("block_1_tx")
    elif n & (n - 1) == 0:
        ctx.probe("block_pow2_tx_count")
    elif n % 2:
        ctx.probe("block_odd_tx_count")
    if n >= 64:
        ctx.probe("block>=64_tx")
    if any(mw.has_witness(t) for t in txs):
        ctx.probe("witness_tx_in_block")
    W.blocks[st["id"]] = {"hdr": hdr, "txs": txs, "ids": ids, "raw": raw, "obj": None}
    # the honest block round-trips and has the right id, through every entry point
    Block = W.net.block
    try:
        b = Block.from_bin(raw)
        out = b.as_bin()
        bid = b.id()
        hh = Block.parse_as_header(io.BytesIO(raw[:80]))
        hout = hh.as_bin()
        hid = hh.id()
        as_hdr = b.as_blockheader().as_bin()
        msg = W.net.message.parse("block", raw)["block"].as_bin()
        mroot = b.merkle_root
    except Exception as e:
        ctx.violate("C14", "honest-block-rejected", {"exc": type(e).__name__, "msg": str(e)[:200], "ntx": n})
        return
    ctx.probe("block_roundtrip")
    exp_id = mw.block_hash(hdr)[::-1].hex()
    ctx.obs("mine", st["id"], n, bid)
    ctx.sig("block|n%d|w%d" % (n, sum(1 for t in txs if mw.has_witness(t))))
    if out != raw or msg != raw:
        ctx.violate("C14", "block-roundtrip-bytes", {"ntx": n, "len_in": len(raw), "len_out": len(out)})
    if hout != raw[:80] or as_hdr != raw[:80]:
        ctx.violate("C14", "header-roundtrip-bytes", {})
    if bid != exp_id or hid != exp_id or b.hash() != mw.block_hash(hdr):
        ctx.violate("C14", "block-id", {"got": bid, "expected": exp_id})
    if mroot != hdr["merkle"]:
        ctx.violate("C14", "merkle-root-field", {})
    W.blocks[st["id"]]["obj"] = b


def _parse_block(W, via, data):
    Block = W.net.block
    if via == "Block.parse":
        return Block.parse(io.BytesIO(data))
    if via == "offsets":
        return Block.parse(io.BytesIO(data), include_offsets=True)
    if via == "header_only":
        return Block.parse(io.BytesIO(data), include_transactions=False)
    if via == "no_merkle_check":
        # the caller asked for no check: then it must check itself; here only parsing is exercised
        b = Block.parse(io.BytesIO(data), check_merkle_hash=False)
        b.check_merkle_hash()
        return b
    if via == "message":
        return W.net.message.parse("block", data)["block"]
    return Block.from_bin(data)


def _op_send_block(ctx, W, st):
    blk = W.blocks.get(st["block"])
    if blk is None:
        return
    from pycoin.block import BadMerkleRootError
    data = bytearray(blk["raw"])
    corr = st.get("corrupt")
    if corr == "flip_tx_byte":
        if len(data) <= 81:
            return
        pos = 81 + st["pos"] % (len(data) - 81)
        data[pos] ^= 1 << st["bit"]
        ctx.fault("block_tx_byte_flipped")
    elif corr == "truncate":
        data = data[: 80 + st["pos"] % max(1, len(data) - 80)]
        ctx.fault("block_truncated")
    elif corr == "alter_header_root":
        data[36 + st["pos"] % 32] ^= 1 << st["bit"]
        ctx.fault("block_header_root_altered")
    if corr:
        ctx.nontrivial = True
    data = bytes(data)
    try:
        b = _parse_block(W, st["via"], data)
    except BadMerkleRootError:
        if not corr:
            ctx.violate("C14", "honest-block-rejected", {"exc": "BadMerkleRootError"})
        else:
            ctx.probe("corrupt_block_rejected_merkle")
        ctx.obs("send_block", st["block"], corr, "BadMerkleRootError")
        return
    except Exception as e:
        if not corr:
            ctx.violate("C14", "honest-block-rejected", {"exc": type(e).__name__, "msg": str(e)[:200]})
        else:
            ctx.probe("corrupt_block_rejected_parse")
        ctx.obs("send_block", st["block"], corr, type(e).__name__)
        return
    # accepted: whatever came back must be internally consistent by the model's definition
    try:
        got_txs = [mw.tx_from_pycoin(t) for t in b.txs]
        root = mm.merkle_root([mw.txid(t) for t in got_txs]) if got_txs else None
        hdr_root = bytes(b.merkle_root)
    except Exception as e:
        ctx.violate("C14", "accepted-block-unreadable", {"exc": type(e).__name__, "msg": str(e)[:200]})
        return
    ctx.obs("send_block", st["block"], corr, "accepted", len(got_txs))
    if st["via"] == "header_only":
        if got_txs:
            ctx.violate("C14", "header-only-parse-returned-transactions", {})
        elif not corr and (b.as_bin() != blk["raw"][:80] or b.id() != mw.block_hash(blk["hdr"])[::-1].hex()):
            ctx.violate("C14", "header-roundtrip-bytes", {"via": "header_only"})
        return
    if st["via"] == "offsets" and not corr:
        # offsets point at the transactions inside the block bytes
        try:
            for t, mt in zip(b.txs, blk["txs"]):
                off = t.offset_in_block
                if blk["raw"][off:off + len(mw.enc_tx(mt))] != mw.enc_tx(mt):
                    ctx.violate("C14", "transaction-offset-wrong", {"offset": off})
                    break
        except Exception as e:
            ctx.violate("C14", "transaction-offset-wrong", {"exc": type(e).__name__})
    if got_txs and root != hdr_root:
        ctx.violate("C14", "block-accepted-with-wrong-merkle-root", {"corrupt": corr, "via": st["via"], "ntx": len(got_txs)})
    elif corr:
        ctx.probe("corrupt_block_accepted_root_consistent")
    if not corr:
        if got_txs != blk["txs"]:
            ctx.violate("C14", "block-roundtrip-fields", {})
    if corr == "alter_header_root" and got_txs:
        ctx.violate("C14", "block-accepted-with-wrong-merkle-root", {"corrupt": corr, "via": st["via"]})


def _matches(ctx, W, blk, st):
    n = len(blk["ids"])
    mode = st["match_mode"]
    seed = st["match_seed"]
    if mode == "none":
        return [False] * n
    if mode == "all":
        return [True] * n
    if mode == "one":
        return [i == seed % n for i in range(n)]
    if mode == "filter":
        if W.filter is None:
            return [False] * n
        mf = W.filter["model"]
        # peer-side matching per BIP37 (the part that involves only the txid): a transaction matches if
        # its id is in the filter.  False positives are legitimate.
        return [mf.contains(i) for i in blk["ids"]]
    x = seed or 1
    out = []
    for i in range(n):
        x = (x * 6364136223846793005 + 1442695040888963407) % (1 << 64)
        out.append((x >> 33) % (2 if mode == "half" else max(2, n // 3 + 1)) == 0)
    return out


def _op_send_proof(ctx, W, st):
    blk = W.blocks.get(st["block"])
    if blk is None:
        return
    matches = _matches(ctx, W, blk, st)
    total, hashes, flags = mm.build_partial(blk["ids"], matches)
    hashes = list(hashes)
    flags = bytearray(flags)
    hdr = dict(blk["hdr"])
    corr = st.get("corrupt")
    listed = False  # corruption class the statement says must be rejected
    if corr == "alter_hash" and hashes:
        i = st["pos"] % len(hashes)
        hb = bytearray(hashes[i])
        hb[(st["pos"] >> 8) % 32] ^= 1 << st["bit"]
        hashes[i] = bytes(hb)
        listed = True
        ctx.fault("proof_hash_altered")
    elif corr == "add_hash":
        i = st["pos"] % (len(hashes) + 1)
        hashes.insert(i, hashlib.sha256(struct.pack("<I", st["pos"])).digest())
        listed = True
        ctx.fault("proof_hash_added")
    elif corr == "remove_hash" and hashes:
        del hashes[st["pos"] % len(hashes)]
        listed = True
        ctx.fault("proof_hash_removed")
    elif corr == "set_padding":
        # number of flag bits the honest proof uses
        used = _bits_used(total, matches)
        pad = len(flags) * 8 - used
        if pad <= 0:
            return
        k = used + st["pos"] % pad
        flags[k >> 3] |= 1 << (k & 7)
        listed = True
        ctx.fault("proof_padding_bit_set")
    elif corr == "alter_root":
        m = bytearray(hdr["merkle"])
        m[st["pos"] % 32] ^= 1 << st["bit"]
        hdr["merkle"] = bytes(m)
        listed = True
        ctx.fault("proof_root_differs")
    elif corr == "flip_flag":
        used = _bits_used(total, matches)
        k = st["pos"] % used
        flags[k >> 3] ^= 1 << (k & 7)
        ctx.fault("proof_flag_bit_flipped")
    elif corr == "extra_flag_byte":
        flags.append(0)
        ctx.fault("proof_extra_flag_byte")
    elif corr:
        return
    if corr:
        ctx.nontrivial = True
    data = (mw.enc_header(hdr) + struct.pack("<I", total) + mw.compact(len(hashes)) + b"".join(hashes)
            + mw.compact(len(flags)) + bytes(flags))
    try:
        d = W.net.message.parse("merkleblock", data)
        got = [bytes(h) for h in d["tx_hashes"]]
        accepted = True
    except Exception as e:
        accepted = False
        err = type(e).__name__
    if accepted:
        # the client consumes the list it was given (ids are ticked off as the transactions arrive); the same
        # merkleblock relayed again by another peer must still yield the full list
        try:
            d["tx_hashes"].clear()
        except Exception:
            pass
        for _ in range(st.get("repeat") or 0):
            ctx.probe("proof_relayed_again")
            try:
                d2 = W.net.message.parse("merkleblock", data)
                got2 = [bytes(h) for h in d2["tx_hashes"]]
                d2["tx_hashes"].clear()
            except Exception as e:
                got2 = ("raised", type(e).__name__)
            if got2 != got:
                ctx.violate("C14", "same-proof-different-result-when-relayed-again", {"first": len(got), "again": got2 if isinstance(got2, tuple) else len(got2),
                                                                                      "corrupt": corr})
                break
    exp = [i for i, m in zip(blk["ids"], matches) if m]
    ctx.obs("send_proof", st["block"], st["match_mode"], corr, accepted, len(exp))
    ctx.sig("proof|n%d|m%d|%s|%s" % (total, len(exp), corr, accepted))
    if not corr:
        if not accepted:
            ctx.violate("C14", "honest-proof-rejected", {"ntx": total, "matched": len(exp), "exc": err})
            return
        ctx.probe("proof_honest_accepted")
        if not exp:
            ctx.probe("proof_none_matched")
        if len(exp) == total:
            ctx.probe("proof_all_matched")
        if got != exp:
            ctx.violate("C14", "proof-wrong-matches", {"ntx": total, "got": len(got), "expected": len(exp)})
        if st["match_mode"] == "filter" and W.filter is not None:
            added = W.filter["added_txids"]
            missing = [a for a in added if a in blk["ids"] and a not in got]
            if missing:
                ctx.violate("C19", "watched-element-not-matched", {"missing": len(missing)})
            elif len([a for a in added if a in blk["ids"]]) >= 2:
                ctx.probe("filter_multi_element_match")
                ctx.nontrivial = True
        return
    if listed:
        if accepted:
            ctx.violate("C14", "corrupt-proof-accepted", {"corrupt": corr, "ntx": total, "matched": len(exp)})
        else:
            ctx.probe("corrupt_proof_rejected")
        return
    # unlisted corruption (flag flips, zero flag byte appended): nothing says it must be rejected, but an
    # accepted proof must be sound: only ids of the block, in block order
    if accepted:
        pos = -1
        ok = True
        for h in got:
            try:
                p = blk["ids"].index(h, pos + 1)
            except ValueError:
                ok = False
                break
            pos = p
        if not ok:
            ctx.violate("C14", "accepted-proof-unsound", {"corrupt": corr, "ntx": total})
        else:
            ctx.probe("flagflip_proof_accepted_sound")


def _bits_used(total, matches):
    """flag bits consumed by the honest traversal (model-side count)"""
    n = total
    widths = [n]
    while n > 1:
        n = (n + 1) // 2
        widths.append(n)
    height = len(widths) - 1
    # parent-of-match at each level
    lvl = list(matches)
    levels = [lvl]
    for _ in range(height):
        lvl = [any(lvl[i:i + 2]) for i in range(0, len(lvl), 2)]
        levels.append(lvl)
    bits = 0
    stack = [(height, 0)]
    while stack:
        h, pos = stack.pop()
        bits += 1
        if h == 0 or not levels[h][pos]:
            continue
        stack.append((h - 1, pos * 2))
        if pos * 2 + 1 < widths[h - 1]:
            stack.append((h - 1, pos * 2 + 1))
    return bits


def _op_mutate(ctx, W, st):
    blk = W.blocks.get(st["block"])
    if blk is None or blk.get("obj") is None:
        return
    b = blk["obj"]
    if st["field"] == "txs_inplace":
        return _mutate_txs(ctx, W, st, blk, b)
    # ids are read before and after: a cached id must not survive the mutation
    try:
        before = b.id()
        f = st["field"]
        if f == "set_nonce":
            b.set_nonce(st["value"])
        elif f in ("merkle_root", "previous_block_hash"):
            setattr(b, f, bytes.fromhex(st["bytes"]))
        else:
            setattr(b, f, st["value"])
        after = b.id()
        raw = b.as_blockheader().as_bin()
        h2 = b.hash()
    except Exception as e:
        ctx.violate("C14", "header-mutation-raised", {"field": st["field"], "exc": type(e).__name__, "msg": str(e)[:200]})
        return
    ctx.fault("header_field_mutated")
    ctx.nontrivial = True
    hdr = blk.setdefault("mut_hdr", dict(blk["hdr"]))
    key = {"nonce": "nonce", "set_nonce": "nonce", "timestamp": "time", "difficulty": "bits", "version": "version",
           "merkle_root": "merkle", "previous_block_hash": "prev"}[st["field"]]
    hdr[key] = bytes.fromhex(st["bytes"]) if key in ("merkle", "prev") else st["value"]
    exp = mw.block_hash(hdr)
    ctx.obs("mutate", st["block"], st["field"], after)
    if raw != mw.enc_header(hdr):
        ctx.violate("C14", "header-roundtrip-bytes", {"after": "mutation " + st["field"]})
    if after != exp[::-1].hex() or h2 != exp:
        ctx.violate("C14", "block-id-stale-after-mutation", {"field": st["field"], "got": after, "expected": exp[::-1].hex(),
                                                             "before": before})


def _mutate_txs(ctx, W, st, blk, b):
    """the holder of a parsed block edits its transaction list in place (the same list object the block keeps) and asks the
    block again whether its transactions hash to the header's root: the answer must follow the current contents"""
    from pycoin.block import BadMerkleRootError

    def verdict():
        try:
            b.check_merkle_hash()
            return True
        except BadMerkleRootError:
            return False

    def expected():
        ids = [mw.txid(mw.tx_from_pycoin(t)) for t in b.txs]
        return bool(ids) and mm.merkle_root(ids) == bytes(b.merkle_root)

    try:
        if not b.txs:
            return
        v0, e0 = verdict(), expected()
        edit = st.get("edit", "none")
        txs = b.txs
        if edit == "append_dup":
            txs.append(txs[-1])
        elif edit == "pop" and len(txs) > 1:
            txs.pop()
        elif edit == "swap" and len(txs) > 1:
            txs[0], txs[-1] = txs[-1], txs[0]
        elif edit == "tx_version":
            txs[st["value"] % len(txs)].version ^= 1
        elif edit == "tx_locktime":
            txs[st["value"] % len(txs)].lock_time ^= 1
        elif edit == "restore_root":
            b.merkle_root = mm.merkle_root([mw.txid(mw.tx_from_pycoin(t)) for t in txs])
            blk.setdefault("mut_hdr", dict(blk["hdr"]))["merkle"] = bytes(b.merkle_root)
        v1, e1 = verdict(), expected()
    except Exception as e:
        ctx.violate("C14", "header-mutation-raised", {"field": "txs_inplace", "edit": st.get("edit"), "exc": type(e).__name__, "msg": str(e)[:200]})
        return
    ctx.fault("block_txs_edited_in_place")
    ctx.nontrivial = True
    ctx.obs("mutate-txs", st["block"], st.get("edit"), v0, v1)
    if (v0, v1) != (e0, e1):
        ctx.violate("C14", "merkle-check-does-not-follow-transactions", {"edit": st.get("edit"), "before": [v0, e0], "after": [v1, e1],
                                                                       "n": len(b.txs)})


def _op_merkle(ctx, W, st):
    from pycoin.merkle import merkle
    x = st["seed"]
    hs = []
    for i in range(st["n"]):
        hs.append(hashlib.sha256(struct.pack("<QI", x, i)).digest())
    exp = mm.merkle_root(hs)
    ctx.probe("merkle_direct")
    try:
        mine = list(hs)
        got = merkle(mine)
        # the caller's list is the caller's: a second computation from the same list object must agree
        got3 = merkle(mine)
        if mine != hs or bytes(got3) != bytes(got):
            ctx.violate("C14", "merkle-modified-callers-list", {"n": st["n"], "len_after": len(mine)})
        got2 = merkle(tuple(hs)) if st["n"] % 2 == 0 else got
    except Exception as e:
        ctx.violate("C14", "merkle-raised", {"n": st["n"], "exc": type(e).__name__})
        return
    ctx.obs("merkle", st["n"], bytes(got).hex())
    if bytes(got) != exp or bytes(got2) != exp:
        ctx.violate("C14", "merkle-root-wrong", {"n": st["n"]})


# -- Bloom filter (C19) --------------------------------------------------------------------------

def _op_filter_new(ctx, W, st):
    from pycoin.bloomfilter import BloomFilter
    try:
        f = BloomFilter(st["size"], st["nfuncs"], st["tweak"])
    except Exception as e:
        ctx.violate("C19", "bloom-construction-raised", {"size": st["size"], "exc": type(e).__name__})
        return
    W.filter = {"sut": f, "model": mmur.ModelBloom(st["size"], st["nfuncs"], st["tweak"]), "added": [], "added_txids": []}
    if st["size"] == 1:
        ctx.probe("filter_size_1")
    if st["size"] >= 1000:
        ctx.probe("filter_size>=1000")
    if st["tweak"] >= (1 << 32):
        ctx.probe("tweak>=2^32")
    if st["nfuncs"] == 0:
        ctx.probe("nfuncs_0")
    if st["nfuncs"] >= 20:
        ctx.probe("nfuncs>=20")


def _op_watch(ctx, W, st):
    F = W.filter
    if F is None:
        return
    f, mf = F["sut"], F["model"]
    kind = st["kind"]
    data = bytes.fromhex(st["data"])
    try:
        if kind == "item":
            f.add_item(data)
            item = data
        elif kind == "hash160":
            f.add_hash160(data)
            item = data
        elif kind == "address":
            addr = W.net.address.for_p2pkh(data)
            f.add_address(addr)
            item = data
        elif kind == "spendable":
            sp = W.net.tx.Spendable(1, b"", data, st["idx"])
            f.add_spendable(sp)
            item = data + struct.pack("<I", st["idx"])
        elif kind == "txid_of_block":
            blk = W.blocks.get(st["block"])
            if blk is None:
                return
            item = blk["ids"][st["pick"] % len(blk["ids"])]
            f.add_item(item)
            F["added_txids"].append(item)
        else:
            return
    except Exception as e:
        ctx.violate("C19", "bloom-add-raised", {"kind": kind, "exc": type(e).__name__, "msg": str(e)[:200]})
        return
    mf.add(item)
    F["added"].append(item)
    got = bytes(f.filter_bytes)
    ctx.obs("watch", kind, got.hex()[:64])
    if got != mf.to_bytes():
        ctx.violate("C19", "bloom-filter-bits", {"kind": kind, "size": len(got), "nfuncs": mf.n_hash_funcs, "tweak": mf.tweak,
                                                 "item": item.hex(), "got": got.hex()[:80], "expected": mf.to_bytes().hex()[:80]})
        return
    # monotone: the peer (model) matches every element added so far against the bytes pycoin would send
    peer = mmur.ModelBloom(mf.size_bytes, mf.n_hash_funcs, mf.tweak)
    peer.filter[:] = got
    for it in F["added"]:
        if not peer.contains(it):
            ctx.violate("C19", "watched-element-not-matched", {"item": it.hex()})
            break
    # and murmur3 itself, at the seeds this filter uses
    from pycoin.bloomfilter import murmur3
    for hi in range(min(mf.n_hash_funcs, 3)):
        seed = hi * 0xFBA4C795 + mf.tweak
        if murmur3(item, seed=seed) != mmur.murmur3_32(item, seed):
            ctx.violate("C19", "murmur3-mismatch", {"item": item.hex(), "seed": seed})
            break


def _op_filterload(ctx, W, st):
    F = W.filter
    if F is None:
        return
    f, mf = F["sut"], F["model"]
    fb, n, tweak = f.filter_load_params()
    if tweak >= (1 << 32):
        return  # a tweak beyond 32 bits cannot be put on the wire; nothing is stated about it
    try:
        data = W.net.message.pack("filterload", filter=list(fb), hash_function_count=n, tweak=tweak, flags=st["flags"])
        d = W.net.message.parse("filterload", data)
    except Exception as e:
        ctx.violate("C19", "filterload-raised", {"exc": type(e).__name__, "msg": str(e)[:200]})
        return
    ctx.probe("filterload_roundtrip")
    exp = mw.compact(len(fb)) + mf.to_bytes() + struct.pack("<II", n, tweak) + bytes([st["flags"]])
    ctx.obs("filterload", len(data))
    if bytes(d["filter"]) != mf.to_bytes() or d["hash_function_count"] != n or d["tweak"] != tweak:
        ctx.violate("C19", "filterload-roundtrip", {})
    if data != exp:
        ctx.violate("C19", "filterload-bytes", {"got": data.hex()[:80], "expected": exp.hex()[:80]})


_OPS = {"mine": _op_mine, "send_block": _op_send_block, "send_proof": _op_send_proof, "mutate": _op_mutate,
        "merkle": _op_merkle, "filter_new": _op_filter_new, "watch": _op_watch, "filterload": _op_filterload}


def normal_form(plan):
    # transactions' literal bytes do not matter for distinctness; shape does
    out = []
    for s in plan["steps"]:
        if s.get("op") == "mine":
            out.append(["mine", len(s["txs"]), sum(1 for t in s["txs"] if any(i["witness"] for i in t["ins"]))])
        else:
            out.append({k: v for k, v in s.items() if k not in ("bytes",)})
    return jdump([plan["config"]["network"], out])


def fingerprint(plan, v):
    d = v.get("detail") or {}
    return "%s: net=%s %s ops=%s" % (v["class"], plan["config"]["network"], d.get("corrupt", d.get("field", "")),
                                    ",".join(s.get("op", "?") for s in plan["steps"]))


def simplify(plan):
    import copy
    for i, st in enumerate(plan["steps"]):
        if st.get("op") == "mine" and len(st["txs"]) > 1:
            for cut in (len(st["txs"]) // 2, len(st["txs"]) - 1):
                if cut >= 1:
                    c = copy.deepcopy(plan)
                    c["steps"][i]["txs"] = c["steps"][i]["txs"][:cut]
                    yield c
