"""S-HASH: hash providers as a replicated service under selection-time faults (C19).

Replicas: the factory chosen by the real get_best_ripemd160() under each injected environment
(hashlib probe raises / algorithm unlisted / PYCOIN_USE_PYTHON_RIPEMD160 set / pycrypto absent or
present), the bundled pure-Python implementation, native hashlib when it works, and the model
(models/ripemd.py).  A selected provider is then swapped into pycoin.encoding.hash for a short
wallet fragment, whose addresses and fingerprints must be byte-identical to the model's.
"""
import hashlib
import os
import sys
import types

from dsim.kernel.core import jdump
from dsim.models import bip32 as mb
from dsim.models import murmur as mmur
from dsim.models.ripemd import ripemd160 as model_ripemd

NAME = "hashcfg"
PROPS = ["C19"]
COMPONENTS = {
    "real": ["pycoin.encoding.hash.get_best_ripemd160 / hash160 / double_sha256 / ripemd160", "pycoin.contrib.ripemd160",
             "pycoin.bloomfilter.murmur3", "Key.address / fingerprint / address.for_p2s under the selected provider"],
    "stub": ["hashlib.new / hashlib.algorithms_available (patched at selection time)", "os.environ switch",
             "Crypto.Hash.RIPEMD module (absent, or a stand-in exposing RIPEMD160Hash)"],
}
RULE = ("plans = selection environment x digest inputs over the padding boundaries x murmur seeds x wallet fragment under "
        "the selected provider; non-trivial iff a non-native provider was selected or the input length is within 9 bytes "
        "of a 64-byte block boundary")
FAULT_KINDS = ["hashlib_probe_raises", "algorithm_unlisted", "env_switch_set", "crypto_absent", "crypto_present"]
PROBES = ["selected_native", "selected_pure_python", "selected_crypto", "len_55_56", "len_63_64", "len_119_120", "len>=1000",
          "swap_in_fragment", "murmur_seed>=2^32", "murmur_tail_1", "murmur_tail_2", "murmur_tail_3", "buffer_refilled_before_digest"]


def gen_plan(rng, tier, index, config=None):
    r = rng.fork("ops")
    steps = []
    n = r.between(4, 16)
    while len(steps) < n:
        op = r.weighted([("select", 4), ("digest", 8), ("murmur", 4), ("fragment", 2)])
        if op == "select":
            steps.append({"op": "select", "probe": r.weighted([("ok", 3), ("raises", 3), ("raises_on_digest", 1)]),
                          "listed": r.chance(0.7), "env": r.pick([None, None, "1", "yes", "0"]),
                          "crypto": r.weighted([("absent", 6), ("present", 2), ("broken", 1)])})
        elif op == "digest":
            ln = r.weighted([(0, 1), (1, 1), (55, 2), (56, 2), (57, 1), (63, 2), (64, 2), (65, 1), (119, 2), (120, 2), (127, 1),
                             (128, 1), (r.between(0, 300), 6), (r.between(1000, 5000), 1)])
            steps.append({"op": "digest", "len": ln, "seed": r.bits(32),
                          "buffer": r.weighted([("bytes", 5), ("bytearray_reused", 2)])})
        elif op == "murmur":
            steps.append({"op": "murmur", "len": r.weighted([(0, 1), (1, 1), (2, 1), (3, 1), (4, 1), (5, 1), (r.between(0, 80), 4)]),
                          "dseed": r.bits(32), "seed": r.weighted([(0, 2), (1, 1), (0xFFFFFFFF, 1), (0xFBA4C795, 1), (r.bits(32), 4),
                                                                    (r.bits(40), 2), (50 * 0xFBA4C795 + r.bits(32), 1)])})
        else:
            steps.append({"op": "fragment", "seed": r.bytes(16).hex(), "path": "%d/%dH/%d" % (r.below(5), r.below(5), r.below(1000)),
                          "script": r.bytes(r.between(1, 80)).hex()})
    # the same inputs come back: what was hashed a moment ago is hashed again (interleaved with the others)
    if r.chance(0.5):
        pool = [x for x in steps if x["op"] in ("digest", "murmur")]
        for _ in range(r.between(1, 6)):
            if pool:
                steps.insert(r.between(0, len(steps)), dict(r.pick(pool[-6:] if r.chance(0.7) else pool)))
        tail = [dict(x) for x in pool[-4:]]
        if len(tail) >= 2 and r.chance(0.5):
            steps.extend([tail[0], tail[-1]] if r.chance(0.5) else tail)
    if not any(s["op"] == "select" for s in steps):
        steps.insert(0, {"op": "select", "probe": "raises", "listed": True, "env": None, "crypto": "absent"})
    return {"world": NAME, "config": {"name": "hash"}, "steps": steps}


def _data(n, seed):
    out = bytearray()
    x = seed or 1
    while len(out) < n:
        x = (x * 1103515245 + 12345) & 0x7FFFFFFF
        out.append((x >> 16) & 0xFF)
    return bytes(out[:n])


class _Env(object):
    """selection-time environment owned by the simulator"""

    def __init__(self, st):
        self.st = st

    def __enter__(self):
        st = self.st
        self.saved_new = hashlib.new
        self.saved_avail = hashlib.algorithms_available
        self.saved_env = os.environ.get("PYCOIN_USE_PYTHON_RIPEMD160")
        self.saved_crypto = {k: sys.modules.get(k, "absent") for k in ("Crypto", "Crypto.Hash", "Crypto.Hash.RIPEMD")}
        real_new = self.saved_new
        probe = st["probe"]

        def new(name, data=b"", **kw):
            if name == "ripemd160" and probe == "raises":
                raise ValueError("unsupported hash type ripemd160")
            h = real_new(name, data, **kw)
            if name == "ripemd160" and probe == "raises_on_digest":
                class _H(object):
                    def digest(self):
                        raise ValueError("[digital envelope routines] unsupported")
                return _H()
            return h

        hashlib.new = new
        avail = set(self.saved_avail)
        if not st["listed"]:
            avail.discard("ripemd160")
        else:
            avail.add("ripemd160")
        hashlib.algorithms_available = avail
        if st["env"] is None:
            os.environ.pop("PYCOIN_USE_PYTHON_RIPEMD160", None)
        else:
            os.environ["PYCOIN_USE_PYTHON_RIPEMD160"] = st["env"]
        if st["crypto"] == "absent":
            for k in self.saved_crypto:
                sys.modules[k] = None
        elif st["crypto"] == "broken":
            m = types.ModuleType("Crypto")
            sys.modules["Crypto"] = m
            sys.modules["Crypto.Hash"] = types.ModuleType("Crypto.Hash")
            sys.modules["Crypto.Hash.RIPEMD"] = types.ModuleType("Crypto.Hash.RIPEMD")  # no RIPEMD160Hash inside
        else:
            m = types.ModuleType("Crypto")
            mh = types.ModuleType("Crypto.Hash")
            mr = types.ModuleType("Crypto.Hash.RIPEMD")

            class RIPEMD160Hash(object):
                def __init__(self, data=b""):
                    self._d = model_ripemd(data)

                def digest(self):
                    return self._d

            mr.RIPEMD160Hash = RIPEMD160Hash
            m.Hash = mh
            mh.RIPEMD = mr
            sys.modules["Crypto"] = m
            sys.modules["Crypto.Hash"] = mh
            sys.modules["Crypto.Hash.RIPEMD"] = mr
        return self

    def __exit__(self, *a):
        hashlib.new = self.saved_new
        hashlib.algorithms_available = self.saved_avail
        if self.saved_env is None:
            os.environ.pop("PYCOIN_USE_PYTHON_RIPEMD160", None)
        else:
            os.environ["PYCOIN_USE_PYTHON_RIPEMD160"] = self.saved_env
        for k, v in self.saved_crypto.items():
            if v == "absent":
                sys.modules.pop(k, None)
            else:
                sys.modules[k] = v
        return False


def execute(plan, ctx):
    import pycoin.encoding.hash as H
    original = H.ripemd160
    selected = {"f": original, "name": "import-time"}
    try:
        for i, st in enumerate(plan["steps"]):
            ctx.step = i
            ctx.steps_run += 1
            op = st.get("op")
            if op == "select":
                _select(ctx, H, st, selected)
            elif op == "digest":
                _digest(ctx, H, st, selected)
            elif op == "murmur":
                _murmur(ctx, st)
            elif op == "fragment":
                _fragment(ctx, H, st, selected)
    finally:
        H.ripemd160 = original


def _select(ctx, H, st, selected):
    if st["probe"] != "ok":
        ctx.fault("hashlib_probe_raises")
    if not st["listed"]:
        ctx.fault("algorithm_unlisted")
    if st["env"] is not None:
        ctx.fault("env_switch_set")
    ctx.fault("crypto_absent" if st["crypto"] != "present" else "crypto_present")
    try:
        with _Env(st):
            f = H.get_best_ripemd160()
            # the selected provider has to work in the environment it was selected in
            d0 = f(b"").digest()
            d1 = f(b"abc").digest()
    except Exception as e:
        ctx.violate("C19", "provider-selection-failed", {"env": st, "exc": type(e).__name__, "msg": str(e)[:200]})
        return
    name = getattr(f, "__name__", type(f).__name__)
    ctx.obs("select", st["probe"], st["listed"], st["env"], st["crypto"], name)
    if f is H.ripemd160_native:
        ctx.probe("selected_native")
    elif name == "_PurePythonRIPEMD160":
        ctx.probe("selected_pure_python")
        ctx.nontrivial = True
    else:
        ctx.probe("selected_crypto")
        ctx.nontrivial = True
    if bytes(d0) != model_ripemd(b"") or bytes(d1) != model_ripemd(b"abc"):
        ctx.violate("C19", "selected-provider-wrong-digest", {"env": st, "provider": name})
    selected["f"] = f
    selected["name"] = name


def _digest(ctx, H, st, selected):
    import pycoin.contrib.ripemd160 as pure
    data = _data(st["len"], st["seed"])
    ln = st["len"]
    if ln in (55, 56):
        ctx.probe("len_55_56")
    if ln in (63, 64):
        ctx.probe("len_63_64")
    if ln in (119, 120):
        ctx.probe("len_119_120")
    if ln >= 1000:
        ctx.probe("len>=1000")
    if 0 <= (64 - ln % 64) % 64 <= 9 or ln % 64 <= 0:
        ctx.nontrivial = True
    exp = model_ripemd(data)
    got = {}
    try:
        buf = st.get("buffer", "bytes")
        if buf == "bytearray_reused" and ln:
            # the caller hashes out of a reusable read buffer and refills it before asking for the digest (as it may with a
            # hashlib object, which has consumed its input by then)
            ba = bytearray(data)
            hobj = selected["f"](ba)
            for i_ in range(len(ba)):
                ba[i_] ^= 0x5A
            got["selected"] = bytes(hobj.digest())
            ctx.probe("buffer_refilled_before_digest")
        else:
            got["selected"] = bytes(selected["f"](data).digest())
        got["bundled"] = bytes(pure.ripemd160(data))
        try:
            got["hashlib"] = hashlib.new("ripemd160", data).digest()
        except ValueError:
            pass
        H.ripemd160 = selected["f"]
        got["hash160"] = bytes(H.hash160(data))
        got["dsha"] = bytes(H.double_sha256(data))
    except Exception as e:
        ctx.violate("C19", "digest-raised", {"len": ln, "provider": selected["name"], "exc": type(e).__name__, "msg": str(e)[:200]})
        return
    ctx.obs("digest", ln, got["selected"].hex())
    ctx.sig("%s|len%%64=%d|blocks%d" % (selected["name"], ln % 64, ln // 64))
    for k in ("selected", "bundled", "hashlib"):
        if k in got and got[k] != exp:
            ctx.violate("C19", "ripemd160-wrong-digest", {"replica": k, "provider": selected["name"], "len": ln})
    if got["hash160"] != model_ripemd(hashlib.sha256(data).digest()):
        ctx.violate("C19", "hash160-wrong", {"provider": selected["name"], "len": ln})
    if got["dsha"] != hashlib.sha256(hashlib.sha256(data).digest()).digest():
        ctx.violate("C19", "double-sha256-wrong", {"len": ln})


def _murmur(ctx, st):
    from pycoin.bloomfilter import murmur3
    data = _data(st["len"], st["dseed"])
    if st["seed"] >= (1 << 32):
        ctx.probe("murmur_seed>=2^32")
    t = st["len"] % 4
    if t:
        ctx.probe("murmur_tail_%d" % t)
    try:
        got = murmur3(data, seed=st["seed"])
    except Exception as e:
        ctx.violate("C19", "murmur3-raised", {"exc": type(e).__name__})
        return
    ctx.obs("murmur", st["len"], st["seed"], got)
    if got != mmur.murmur3_32(data, st["seed"]):
        ctx.violate("C19", "murmur3-mismatch", {"len": st["len"], "seed": st["seed"], "got": got,
                                                "expected": mmur.murmur3_32(data, st["seed"])})


def _fragment(ctx, H, st, selected):
    """a wallet fragment run under the selected provider: every hash160-derived artefact must equal the model's"""
    from pycoin.networks.registry import network_for_netcode
    net = network_for_netcode("BTC")
    H.ripemd160 = selected["f"]
    ctx.probe("swap_in_fragment")
    seed = bytes.fromhex(st["seed"])
    try:
        root = net.keys.bip32_seed(seed)
        node = root.subkey_for_path(st["path"])
        got = (node.fingerprint(), node.hash160(), node.address(), node.parent_fingerprint(),
               net.address.for_p2s(bytes.fromhex(st["script"])), node.hwif())
    except Exception as e:
        ctx.violate("C19", "fragment-raised", {"provider": selected["name"], "exc": type(e).__name__, "msg": str(e)[:200]})
        return
    m = mb.master(seed)
    if m is None:
        return
    parent = None
    for part in st["path"].split("/"):
        h = part.endswith("H")
        i = int(part.rstrip("H")) + (mb.HARD if h else 0)
        parent = m
        m = mb.ckd_priv(m, i)
        if m is None:
            return
    h160 = mb.hash160(mb.ser_p(m["K"]))
    exp = (h160[:4], h160, mb.b58check(b"\x00" + h160), mb.fingerprint(parent),
           mb.b58check(b"\x05" + mb.hash160(bytes.fromhex(st["script"]))), mb.text(m, False, bytes.fromhex("0488b21e")))
    ctx.obs("fragment", got[2], got[4])
    if tuple(got) != exp:
        bad = [k for k, (a, b) in zip(("fingerprint", "hash160", "address", "parent_fingerprint", "p2sh", "xpub"), zip(got, exp)) if a != b]
        ctx.violate("C19", "fragment-differs-under-provider", {"provider": selected["name"], "fields": bad})


def normal_form(plan):
    return jdump(plan["steps"])


def fingerprint(plan, v):
    d = v.get("detail") or {}
    return "%s: provider=%s ops=%s" % (v["class"], d.get("provider", d.get("replica", "-")),
                                       ",".join(s.get("op", "?") for s in plan["steps"]))
