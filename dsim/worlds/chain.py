"""S-CHAIN: simulated peers relay headers into a real BlockChain/ChainFinder (property C15).

Real: pycoin.blockchain.BlockChain.BlockChain, ChainFinder (all methods), callbacks (WeakSet),
      in configuration B also pycoin.block.Block headers (real 32-byte ids).
Stub: peers, network (virtual-time event queue at planning time), header objects in
      configuration A (SimHash ids: the plan owns every set/dict slot).
"""
import gc
import hashlib
import math

from dsim.kernel.core import Abort, HarnessError, jdump
from dsim.models.chain import ChainModel
from dsim.seams.simhash import SimHash, SimHeader

NAME = "chain"
PROPS = ["C15"]
COMPONENTS = {
    "real": ["pycoin.blockchain.BlockChain.BlockChain (add_headers, lock_to_index, all queries, callbacks)",
             "pycoin.blockchain.ChainFinder.ChainFinder", "pycoin.block.Block headers (config B)"],
    "stub": ["peers", "network (virtual-time delivery schedule frozen into the plan)",
             "header objects with plan-chosen hash slots (config A)"],
}
RULE = ("plans = forest x peer schedules x batching x locks x callbacks x set-slot assignment; a run is "
        "non-trivial iff it contained a reorg (an op 'remove'), an orphan adoption (a delivered header connected "
        "a waiting subtree) or a delivery of a new header after a lock")
FAULT_KINDS = ["duplicate", "duplicate_of_locked", "duplicate_in_batch", "child_before_parent",
               "orphan_never_resolved", "reordered_batch", "partition_heal_burst", "fork_below_lock",
               "empty_batch", "retransmit", "stale_branch_after_lock", "crash_restart", "peer_disconnect_mid_batch", "lock_persist_error"]
PROBES = ["two_instances_own_weights", "reorg", "deep_reorg>=3", "tie", "orphan_adopted", "adopt_parent_and_sibling_same_batch",
          "lock", "lock_full_length", "lock_noop", "delivery_after_lock", "callback_delivered",
          "callback_dropped", "two_instances", "slot_collision", "weight_zero_header", "lock_raised", "judged_bookkeeping_only_while_uncertain"]


# ---------------------------------------------------------------------------------------------
# planning
# ---------------------------------------------------------------------------------------------

def _gen_forest(rng, n):
    """returns list of (label, parent_label, weight) in a parents-first order"""
    mode = rng.weighted([("random", 3), ("chainy", 4), ("forks", 3), ("star", 1)])
    wmode = rng.weighted([("ones", 4), ("small", 4), ("wide", 2)])
    p_missing = rng.pick([0.0, 0.0, 0.05, 0.15, 0.3])
    names = ["h%d" % i for i in range(n)]
    rng.shuffle(names)
    nodes = []
    nmissing = 0
    stems = []
    for i in range(n):
        if i == 0:
            parent = "A"
        elif rng.chance(p_missing):
            if nmissing and rng.chance(0.4):
                parent = "m%d" % rng.below(nmissing)
            else:
                parent = "m%d" % nmissing
                nmissing += 1
        elif mode == "random":
            j = rng.below(i + 1)
            parent = "A" if j == i else nodes[j][0]
        elif mode == "chainy":
            if rng.chance(0.75):
                parent = nodes[i - 1][0]
            else:
                j = rng.below(i + 1)
                parent = "A" if j == i else nodes[j][0]
        elif mode == "forks":
            if not stems:
                stems = [0]
            if rng.chance(0.15) and len(stems) < 4:
                j = rng.below(i)
                stems.append(j)
                parent = nodes[j][0]
                stems[-1] = i
            else:
                k = rng.below(len(stems))
                parent = nodes[stems[k]][0]
                stems[k] = i
        else:  # star
            j = rng.below(min(i, 3)) if rng.chance(0.7) else rng.below(i)
            parent = nodes[j][0]
        if wmode == "ones":
            w = 1
        elif wmode == "small":
            w = rng.pick([0, 1, 1, 1, 2, 3])
        else:
            w = rng.pick([1, 1, 2, 5, 100, 1000, rng.between(1, 1 << 40)])
        nodes.append((names[i], parent, w))
    return nodes


def _gen_slots(rng, labels):
    mode = rng.weighted([("seq", 2), ("small", 4), ("tiny", 2), ("large", 2), ("same", 1), ("rev", 1)])
    slots = {}
    n = len(labels)
    for i, lab in enumerate(labels):
        if mode == "seq":
            s = i
        elif mode == "rev":
            s = n - i
        elif mode == "small":
            s = rng.below(max(8, 2 * n))
        elif mode == "tiny":
            s = rng.below(4)
        elif mode == "large":
            s = rng.bits(40)
        else:
            s = 7
        slots[lab] = s
    return slots, mode


def _schedule(rng, nodes, tier):
    """simulate peers and a faulty network in virtual time; returns sorted events (t, seq, label, tags)"""
    npeers = rng.weighted([(1, 3), (2, 4), (3, 2), (4, 1)])
    dup_rate = rng.pick([0.0, 0.0, 0.1, 0.3])
    retrans_rate = rng.pick([0.0, 0.05, 0.2])
    events = []
    seq = 0
    index_of = {lab: i for i, (lab, _, _) in enumerate(nodes)}
    parent_of = {lab: p for lab, p, _ in nodes}
    for p in range(npeers):
        view_mode = rng.weighted([("all", 5), ("subset", 2), ("branch", 2)])
        if view_mode == "all" or len(nodes) < 2:
            view = list(range(len(nodes)))
        elif view_mode == "subset":
            view = [i for i in range(len(nodes)) if rng.chance(0.75)]
        else:
            tip = rng.below(len(nodes))
            view = []
            lab = nodes[tip][0]
            while lab in index_of:
                view.append(index_of[lab])
                lab = parent_of[lab]
            view.sort()
        order_mode = rng.weighted([("topo", 5), ("reverse", 2), ("random", 3), ("near", 3)])
        if order_mode == "reverse":
            view.reverse()
        elif order_mode == "random":
            rng.shuffle(view)
        elif order_mode == "near":
            # mostly in order with local swaps
            for k in range(len(view) - 1):
                if rng.chance(0.3):
                    view[k], view[k + 1] = view[k + 1], view[k]
        t = rng.real() * 5.0
        interval = rng.pick([0.01, 0.1, 1.0])
        latency = rng.pick([0.01, 0.2, 2.0])
        part = None
        if rng.chance(0.3):
            a = t + rng.real() * interval * max(1, len(view))
            part = (a, a + rng.real() * 10.0 + 0.5)
        for i in view:
            t += interval * (0.5 + rng.real())
            arrive = t + latency * (-math.log(1.0 - rng.real() * 0.999))
            tags = []
            if rng.chance(retrans_rate):
                arrive += latency * 5 + rng.real() * 3
                tags.append("retransmit")
            if part and part[0] <= arrive <= part[1]:
                arrive = part[1] + 1e-6 * seq
                tags.append("heal")
            events.append((arrive, seq, nodes[i][0], tags))
            seq += 1
            if rng.chance(dup_rate):
                events.append((arrive + rng.real() * latency * 4 + rng.pick([0.0, 0.0, 20.0]), seq, nodes[i][0], ["dup"]))
                seq += 1
    events.sort(key=lambda e: (e[0], e[1]))
    return events, npeers


def _reorg_war(rng, config):
    """a scripted family of histories that random forests rarely produce: competing branches, each delivered whole and each
    just heavy enough to displace the one before (a reorg per delivery), locks placed no deeper than where a chosen stale
    branch left the chain, then that stale branch comes back: it is extended until it is the heaviest again"""
    r = rng.fork("war")
    names = ["h%d" % i for i in range(200)]
    r.shuffle(names)
    nid = [0]
    parent, weight = {}, {}

    def new(par, w=1):
        lab = names[nid[0]]
        nid[0] += 1
        parent[lab], weight[lab] = par, w
        return lab

    def path_of(tip):
        out = []
        while tip != "A":
            out.append(tip)
            tip = parent[tip]
        return out[::-1]

    def total(tip):
        return sum(weight[x] for x in path_of(tip))

    wpick = (lambda: 1) if r.chance(0.7) else (lambda: r.pick([1, 1, 2, 3]))
    tips = []
    tip = "A"
    batch = []
    for _ in range(r.between(2, 6)):
        tip = new(tip, wpick())
        batch.append(tip)
    tips.append(tip)
    batches = [batch]
    best = tip
    for _ in range(r.between(1, 4)):
        host = path_of(r.pick(tips))
        fork = r.pick(["A"] + host[:-1]) if r.chance(0.8) else host[-1]
        tip, batch = fork, []
        need = total(best) + r.pick([1, 1, 2])
        while (total(tip) if tip != "A" else 0) < need or not batch:
            tip = new(tip, wpick())
            batch.append(tip)
        tips.append(tip)
        batches.append(batch)
        best = tip
    steps = []
    for b in batches:
        hs = [[x, parent[x], weight[x]] for x in b]
        if r.chance(0.2):
            r.shuffle(hs)
        steps.append({"op": "deliver", "bc": "bc0", "batch": hs, "t": float(len(steps)), "tags": ["branch"]})
    # the comeback: a stale branch, and where it left the chain that is reported now
    stale = r.pick(tips[:-1])
    bp, sp = path_of(best), path_of(stale)
    common = 0
    while common < min(len(bp), len(sp)) and bp[common] == sp[common]:
        common += 1
    locks = sorted(set(r.between(0, common) for _ in range(r.between(0, 3))))
    for k in locks:
        steps.append({"op": "lock", "bc": "bc0", "index": k})
        if r.chance(0.3):
            steps.append({"op": "query", "bc": "bc0", "kind": r.pick(["length", "last_block_hash", "locked_length"]), "arg": None})
    tip, batch = stale, []
    need = total(best) + r.pick([1, 1, 3])
    while total(tip) < need:
        tip = new(tip, wpick())
        batch.append(tip)
    hs = [[x, parent[x], weight[x]] for x in batch]
    if r.chance(0.3):
        k = r.between(1, len(hs))
        steps.append({"op": "deliver", "bc": "bc0", "batch": hs[k:], "t": 100.0, "tags": ["comeback-tail-first"]})
        steps.append({"op": "deliver", "bc": "bc0", "batch": hs[:k], "t": 101.0, "tags": ["comeback"]})
    else:
        steps.append({"op": "deliver", "bc": "bc0", "batch": hs, "t": 100.0, "tags": ["comeback"]})
    if r.chance(0.4):
        steps.append({"op": "lock", "bc": "bc0", "back": r.pick([0, 1, 2])})
    steps.append({"op": "deliver", "bc": "bc0", "batch": [], "t": 1e6 + 1, "tags": ["final"]})
    labels = ["A"] + list(parent)
    slots, slot_mode = _gen_slots(rng.fork("slots"), labels)
    if config == "B-block":
        for st in steps:
            if st["op"] == "deliver":
                st["batch"] = [[a, b, w & 0xFFFFFFFF] for a, b, w in st["batch"]]
    return {"world": NAME, "config": {"name": config, "slots": slots, "slot_mode": slot_mode, "anchor": "A", "peers": len(tips),
                                      "scenario": "reorg_war"},
            "steps": [{"op": "new", "bc": "bc0", "shared": False}] + steps}


def gen_plan(rng, tier, index, config=None):
    if config is None:
        config = rng.weighted([("A-simhash", 70), ("A2-two-instances", 10), ("B-block", 20)])
    if config in ("A-simhash", "B-block") and rng.chance(0.08):
        return _reorg_war(rng, config)
    if tier == "thorough":
        n = rng.weighted([(rng.between(1, 8), 30), (rng.between(5, 16), 40), (rng.between(10, 40), 20),
                          (rng.between(40, 200), 3)])
    else:
        n = rng.weighted([(rng.between(1, 6), 40), (rng.between(3, 12), 50), (rng.between(10, 24), 10)])
    nodes = _gen_forest(rng.fork("forest"), n)
    if config == "B-block":
        nodes = [(lab, p, w & 0xFFFFFFFF) for lab, p, w in nodes]  # a real header's bits field is 32-bit
    info = {lab: (p, w) for lab, p, w in nodes}
    labels = ["A"] + [lab for lab, _, _ in nodes] + sorted({p for _, p, _ in nodes if p.startswith("m")})
    slots, slot_mode = _gen_slots(rng.fork("slots"), labels)
    events, npeers = _schedule(rng.fork("net"), nodes, tier)

    r = rng.fork("steps")
    window = r.pick([0.0, 0.05, 0.5, 3.0, 1e9])
    maxbatch = r.pick([1, 2, 3, 5, 1000])
    p_lock = r.pick([0.0, 0.0, 0.1, 0.3])
    p_query = r.pick([0.0, 0.2, 0.5])
    p_shuffle_batch = r.pick([0.0, 0.3, 1.0])
    p_restart = r.pick([0.0, 0.0, 0.05, 0.15]) if p_lock > 0 else 0.0
    p_cut = r.pick([0.0, 0.0, 0.1, 0.3])
    p_persist_fault = r.pick([0.0, 0.0, 0.2]) if p_lock > 0 else 0.0
    sent = []
    bcs = ["bc0"] + (["bc1"] if config == "A2-two-instances" else [])
    steps = []
    # two trackers in one process that share nothing (own storage): the second is told other weights for the same hashes,
    # so whatever one of them remembers per hash must not reach the other
    own_weights = None
    if config == "A2-two-instances" and r.chance(0.4):
        own_weights = {lab: (w + r.between(1, 9) if r.chance(0.7) else max(0, w - r.between(1, 3)))
                       for lab, _, w in nodes if r.chance(0.6)}
    for b in bcs:
        steps.append({"op": "new", "bc": b, "shared": ((config == "A2-two-instances") or r.chance(0.1)) and own_weights is None})
    ncb = 0
    if r.chance(0.35):
        for _ in range(r.between(1, 3)):
            steps.append({"op": "cb_add", "bc": r.pick(bcs), "cb": "cb%d" % ncb})
            ncb += 1
    # group events into batches
    batches = []
    cur = []
    cur_t = None
    for (t, _, lab, tags) in events:
        if cur and (t - cur_t > window or len(cur) >= maxbatch):
            batches.append((cur_t, cur))
            cur = []
        if not cur:
            cur_t = t
        cur.append((lab, tags))
    if cur:
        batches.append((cur_t, cur))
    for (t, batch) in batches:
        if r.chance(p_shuffle_batch):
            r.shuffle(batch)
        bc = r.pick(bcs)
        hs = [[lab, info[lab][0], info[lab][1]] for lab, _ in batch]
        tags = sorted({tg for _, tgs in batch for tg in tgs})
        if hs and r.chance(p_cut):
            # the peer goes away in the middle of the batch: the iterator handed to add_headers raises after `cut` headers;
            # usually it reconnects and sends the batch again
            steps.append({"op": "deliver", "bc": bc, "batch": hs, "t": round(t, 6), "tags": tags, "cut": r.below(len(hs))})
            if r.chance(0.2):
                sent.extend(h for h in hs[: steps[-1]["cut"]] if h not in sent)
                continue
        steps.append({"op": "deliver", "bc": bc, "batch": hs, "t": round(t, 6), "tags": tags})
        sent.extend(h for h in hs if h not in sent)
        if r.chance(p_restart):
            # the process dies; only what did_lock_to_index_f persisted survives; peers send their headers again
            steps.append({"op": "restart", "bc": bc})
            if r.chance(0.7):
                again = list(sent)
                if r.chance(0.5):
                    r.shuffle(again)
                k = r.between(1, len(again))
                steps.append({"op": "deliver", "bc": bc, "batch": again[:k], "t": round(t, 6), "tags": ["resync_after_restart"]})
        if r.chance(0.03):
            steps.append({"op": "deliver", "bc": bc, "batch": [], "t": round(t, 6), "tags": []})
        while r.chance(p_query):
            kind = r.pick(["length", "hash_for_index", "tuple_for_index", "index_for_hash", "last_block_hash",
                           "locked_length", "unlocked_length", "is_hash_known", "repr"])
            arg = None
            if kind in ("hash_for_index", "tuple_for_index"):
                arg = r.pick([0, 1, -1, -2, r.between(-n - 1, n + 1)])
            elif kind in ("index_for_hash", "is_hash_known"):
                arg = r.pick(labels)
            steps.append({"op": "query", "bc": bc, "kind": kind, "arg": arg})
        if r.chance(p_lock):
            how = r.weighted([("back", 5), ("index", 3), ("full", 1), ("zero", 1)])
            if how == "back":
                steps.append({"op": "lock", "bc": bc, "back": r.pick([0, 0, 1, 1, 1, 2, 3, 6])})
            elif how == "index":
                steps.append({"op": "lock", "bc": bc, "index": r.between(0, n)})
            elif how == "full":
                steps.append({"op": "lock", "bc": bc, "back": 0})
            else:
                steps.append({"op": "lock", "bc": bc, "index": 0})
            if r.chance(p_persist_fault):
                # the disk is full when the newly locked entries are handed to did_lock_to_index_f
                steps[-1]["persist_fault"] = r.pick(["ENOSPC", "EIO"])
        if ncb and r.chance(0.05):
            steps.append({"op": "cb_drop", "cb": "cb%d" % r.below(ncb)})
        if r.chance(0.03):
            steps.append({"op": "cb_add", "bc": bc, "cb": "cb%d" % ncb})
            ncb += 1
    # a second peer re-delivers everything at the end (duplicates of locked headers included)
    if r.chance(0.3):
        for b in bcs:
            hs = [[lab, p, w] for lab, p, w in nodes]
            if r.chance(0.5):
                r.shuffle(hs)
            steps.append({"op": "deliver", "bc": b, "batch": hs, "t": 1e6, "tags": ["resync"]})
    # every run ends with a delivery so that post-lock discrepancies become visible
    for b in bcs:
        steps.append({"op": "deliver", "bc": b, "batch": [], "t": 1e6 + 1, "tags": ["final"]})
    cfg_out = {"name": config, "slots": slots, "slot_mode": slot_mode, "anchor": "A", "peers": npeers}
    if own_weights:
        cfg_out["w_bc1"] = own_weights
    return {"world": NAME, "config": cfg_out, "steps": steps}


# ---------------------------------------------------------------------------------------------
# execution
# ---------------------------------------------------------------------------------------------

class _Callback(object):
    def __init__(self, name):
        self.name = name
        self.calls = []

    def __call__(self, bc, ops):
        self.calls.append((bc, list(ops)))


class _StorageFault(OSError):
    pass


class _Inst(object):
    def __init__(self):
        self.sut = None
        self.model = None
        self.L = []
        self.cbs = {}
        self.pending_lock_issue = None
        self.locked_since_delivery = False
        self.waiting_tops = {}
        self.durable = []          # what did_lock_to_index_f handed to the (simulated) disk
        self.persist_calls = 0
        self.fail_next_persist = None
        self.persist_faulted = False
        self.uncertain = set()      # labels a failed delivery had consumed and no complete delivery has carried since

    def persist(self, items, old_length):
        self.persist_calls += 1
        if self.fail_next_persist is not None:
            import errno as _errno
            e, self.fail_next_persist = self.fail_next_persist, None
            self.persist_faulted = True
            raise _StorageFault(getattr(_errno, e), "simulated storage error while persisting locked headers")
        del self.durable[old_length:]
        self.durable.extend(items)


def _reset_process_globals():
    from pycoin.blockchain.BlockChain import BlockChain
    from pycoin.blockchain.ChainFinder import ChainFinder
    # a fresh process: the mutable default arguments start empty
    for f in (BlockChain.__init__, ChainFinder.maximum_path, ChainFinder.find_ancestral_path):
        for d in (f.__defaults__ or ()):
            if isinstance(d, dict):
                d.clear()


class _Ids(object):
    """label -> id object and header object for the run's configuration"""

    def __init__(self, cfg, all_headers):
        self.cfg = cfg
        self.block_mode = cfg["name"] == "B-block"
        self.slots = cfg.get("slots", {})
        self.info = all_headers  # label -> (parent, w)
        self._id = {}
        self._label_of = {}

    def id_of(self, label):
        v = self._id.get(label)
        if v is not None:
            return v
        if not self.block_mode:
            v = SimHash(label, self.slots.get(label, 0))
        else:
            if label not in self.info:
                v = hashlib.sha256(("id:" + label).encode()).digest()
            else:
                # iterative construction parents-first
                chain = []
                lab = label
                while lab in self.info and lab not in self._id:
                    chain.append(lab)
                    lab = self.info[lab][0]
                    if len(chain) > 100000:
                        raise HarnessError("cycle in forest")
                for lab in reversed(chain):
                    self._id[lab] = self.header(lab).hash()
                    self._label_of[self._id[lab]] = lab
                return self._id[label]
        self._id[label] = v
        if self.block_mode:
            self._label_of[v] = label
        return v

    def header(self, label):
        p, w = self.info[label]
        if not self.block_mode:
            return SimHeader(self.id_of(label), self.id_of(p), w)
        from pycoin.block import Block
        mr = hashlib.sha256(("mr:" + label).encode()).digest()
        blk = Block(1, self.id_of(p), mr, 1231006505, w, 0)
        if label not in self._id:
            h = blk.hash()
            self._id[label] = h
            self._label_of[h] = label
        return blk

    def label(self, idobj):
        if idobj is None:
            return None
        if isinstance(idobj, SimHash):
            return idobj.label
        lab = self._label_of.get(idobj)
        if lab is None:
            return "?" + (idobj.hex()[:8] if isinstance(idobj, bytes) else repr(idobj))
        return lab


def _collect_headers(plan):
    info = {}
    for st in plan["steps"]:
        if st.get("op") == "deliver":
            for lab, p, w in st["batch"]:
                info.setdefault(lab, (p, w))
    return info


def execute(plan, ctx):
    from pycoin.blockchain.BlockChain import BlockChain
    _reset_process_globals()
    cfg = plan["config"]
    ids = _Ids(cfg, _collect_headers(plan))
    anchor_label = cfg.get("anchor", "A")
    insts = {}
    ids_bc1 = None
    cb_owner = {}
    if len(set(cfg.get("slots", {}).values())) < len(cfg.get("slots", {})):
        ctx.probe("slot_collision")
    for i, st in enumerate(plan["steps"]):
        ctx.step = i
        ctx.steps_run += 1
        op = st.get("op")
        if op == "new":
            inst = _Inst()
            inst.shared = bool(st.get("shared"))
            if st.get("shared"):
                inst.sut = BlockChain(ids.id_of(anchor_label), did_lock_to_index_f=inst.persist)
            else:
                inst.sut = BlockChain(ids.id_of(anchor_label), unlocked_block_storage={}, did_lock_to_index_f=inst.persist)
            inst.model = ChainModel(anchor_label)
            insts[st["bc"]] = inst
            if len(insts) == 2:
                ctx.probe("two_instances")
            ctx.obs("new", st["bc"], bool(st.get("shared")))
            continue
        if op == "cb_drop":
            bc = cb_owner.pop(st["cb"], None)
            if bc is not None and bc in insts:
                insts[bc].cbs.pop(st["cb"], None)
                gc.collect()
                ctx.probe("callback_dropped")
            continue
        inst = insts.get(st.get("bc"))
        if inst is None:
            continue
        if op == "cb_add":
            if st["cb"] in cb_owner:
                continue
            cb = _Callback(st["cb"])
            inst.cbs[st["cb"]] = cb
            cb_owner[st["cb"]] = st["bc"]
            inst.sut.add_change_callback(cb)
        elif op == "deliver":
            t = st.get("t", 0.0)
            if t < 1e5:
                ctx.vtime = max(ctx.vtime, t)
            wmap = cfg.get("w_bc1") if st.get("bc") == "bc1" and not ids.block_mode and not inst.shared else None
            if wmap:
                # this tracker is told its own weights for the same hashes (same id objects, other SimHeader weights)
                if "bc0" in insts:
                    ctx.probe("two_instances_own_weights")
                if ids_bc1 is None:
                    import copy as _copy_mod
                    ids_bc1 = _copy_mod.copy(ids)
                    ids_bc1.info = {lab: (p, wmap.get(lab, w)) for lab, (p, w) in ids.info.items()}
                st = dict(st, batch=[[lab, p, wmap.get(lab, w)] for lab, p, w in st["batch"]])
                _deliver(ctx, ids_bc1, inst, st)
            else:
                _deliver(ctx, ids, inst, st)
        elif op == "lock":
            _lock(ctx, ids, inst, st)
        elif op == "restart":
            _restart(ctx, ids, inst, st, anchor_label)
        elif op == "query":
            _query(ctx, ids, inst, st)


class _Disconnect(Exception):
    pass


def _deliver_cut(ctx, ids, inst, st, cut):
    """the peer goes away in the middle of a batch: the iterator handed to add_headers raises after `cut` headers.
    Whether the tracker keeps the consumed prefix or drops the whole batch is not stated; the consumed headers are
    *uncertain* until a complete delivery carries them again.  Judged here: the call fails with the peer's exception (or
    completes), the tracker still answers, and it still describes exactly the chain it last reported."""
    model, sut = inst.model, inst.sut
    ctx.fault("peer_disconnect_mid_batch")
    ctx.nontrivial = True
    consumed = st["batch"][:cut]
    headers = [ids.header(lab) for lab, _, _ in consumed]
    for cb in inst.cbs.values():
        cb.calls = []

    def feed():
        for h in headers:
            yield h
        raise _Disconnect("peer went away in the middle of the batch (simulated)")

    try:
        sut.add_headers(feed())
        ctx.violate("C15", "deliver-swallowed-peer-error", {"batch": [b[0] for b in consumed]})
        raise Abort()
    except _Disconnect:
        pass
    except Abort:
        raise
    except Exception as e:
        ctx.violate("C15", "deliver-raised", {"exc": type(e).__name__, "msg": str(e)[:200], "batch": [b[0] for b in consumed],
                                              "during": "failed delivery"})
        raise Abort()
    inst.uncertain |= {lab for lab, _, _ in consumed if lab not in model.delivered}
    try:
        n = sut.length()
        chain_ids = [sut.hash_for_index(i) for i in range(n)]
        chain = [ids.label(h) for h in chain_ids]
        look = [sut.index_for_hash(h) for h in chain_ids]
    except Exception as e:
        ctx.violate("C15", "query-raised", {"exc": type(e).__name__, "msg": str(e)[:200], "after": "failed delivery"})
        raise Abort()
    ctx.obs("deliver-cut", st["bc"], [b[0] for b in consumed], chain)
    if chain != inst.L:
        ctx.violate("C15", "ops-replay-mismatch", {"replayed": inst.L[-6:], "reported": chain[-6:], "len_replayed": len(inst.L),
                                                   "len_reported": len(chain), "after": "failed delivery (no operations were returned)"})
        inst.L = list(chain)
    elif look != list(range(n)):
        ctx.violate("C15", "lookup-disagree", {"after": "failed delivery", "index_for_hash": look[-6:]})
    if any(cb.calls for cb in inst.cbs.values()):
        ctx.violate("C15", "callback-mismatch", {"why": "operations sent to callbacks during a delivery that failed"})


def _deliver(ctx, ids, inst, st):
    model, sut = inst.model, inst.sut
    batch = st["batch"]
    cut = st.get("cut")
    if cut is not None and 0 <= cut < len(batch):
        return _deliver_cut(ctx, ids, inst, st, cut)
    if inst.uncertain:
        # headers a failed delivery had consumed become certain when a complete delivery carries them
        inst.uncertain -= {lab for lab, _, _ in batch}
    headers = []
    seen_in_batch = set()
    new_labels = []
    if not batch:
        ctx.fault("empty_batch")
    if "heal" in st.get("tags", ()):
        ctx.fault("partition_heal_burst")
    if "retransmit" in st.get("tags", ()):
        ctx.fault("retransmit")
    batch_labels = {lab for lab, _, _ in batch}
    adopted = False
    for pos, (lab, p, w) in enumerate(batch):
        headers.append(ids.header(lab))
        if lab in seen_in_batch:
            ctx.fault("duplicate_in_batch")
            continue
        seen_in_batch.add(lab)
        if lab in model.delivered:
            ctx.fault("duplicate")
            if lab in model.locked:
                ctx.fault("duplicate_of_locked")
            continue
        new_labels.append(lab)
        if w == 0:
            ctx.probe("weight_zero_header")
        if p.startswith("m"):
            ctx.fault("orphan_never_resolved")
        elif p != model.anchor and p not in model.delivered:
            ctx.fault("child_before_parent")
            if p in batch_labels and p not in seen_in_batch:
                ctx.fault("reordered_batch")
        if p in model.locked[:-1]:
            ctx.fault("fork_below_lock")
            if inst.locked_since_delivery:
                ctx.fault("stale_branch_after_lock")
    # orphan adoption: a new header that has waiting (already delivered) children
    for lab in new_labels:
        kids = [c for c in model.children.get(lab, ()) if c in model.delivered]
        if kids:
            adopted = True
            ctx.probe("orphan_adopted")
            p = ids.info[lab][0]
            sibs = [s for s in new_labels if s != lab and ids.info[s][0] == lab]
            if sibs:
                ctx.probe("adopt_parent_and_sibling_same_batch")
    for lab in new_labels:
        p, w = ids.info[lab]
        model.deliver(lab, p, w)
    if adopted or (inst.locked_since_delivery and new_labels):
        ctx.nontrivial = True
    if inst.locked_since_delivery and new_labels:
        ctx.probe("delivery_after_lock")
    for cb in inst.cbs.values():
        cb.calls = []
    try:
        ops = sut.add_headers(iter(headers))
    except Exception as e:
        ctx.violate("C15", "deliver-raised", {"exc": type(e).__name__, "msg": str(e)[:200],
                                              "batch": [b[0] for b in batch]})
        raise Abort()
    # -- ops replay -----------------------------------------------------------------------
    L = inst.L
    ops_view = []
    bad_ops = None
    for op in ops:
        try:
            kind, blk, idx = op
            lab = ids.label(blk.hash())
        except Exception as e:
            bad_ops = {"why": "malformed op", "op": repr(op)[:100]}
            break
        ops_view.append([kind, lab, idx])
        if kind == "add":
            if idx != len(L):
                bad_ops = bad_ops or {"why": "add not at end", "op": [kind, lab, idx], "len": len(L)}
            L.append(lab)
        elif kind == "remove":
            if not L or idx != len(L) - 1 or L[-1] != lab:
                bad_ops = bad_ops or {"why": "remove not of last element", "op": [kind, lab, idx],
                                      "tail": L[-2:], "len": len(L)}
                if lab in L:
                    L.remove(lab)
            else:
                L.pop()
            if idx < len(model.locked):
                bad_ops = bad_ops or {"why": "remove below the locked length", "op": [kind, lab, idx]}
        else:
            bad_ops = bad_ops or {"why": "unknown op kind", "op": [kind, lab, idx]}
    removes = sum(1 for o in ops_view if o[0] == "remove")
    if removes:
        ctx.probe("reorg")
        ctx.nontrivial = True
        if removes >= 3:
            ctx.probe("deep_reorg>=3")
    ctx.obs("deliver", st["bc"], [b[0] for b in batch], ops_view)
    # -- reported chain -------------------------------------------------------------------
    try:
        n = sut.length()
        chain_ids = [sut.hash_for_index(i) for i in range(n)]
    except Exception as e:
        ctx.violate("C15", "query-raised", {"exc": type(e).__name__, "msg": str(e)[:200]})
        raise Abort()
    chain = [ids.label(h) for h in chain_ids]
    ctx.obs("chain", chain)
    if inst.uncertain:
        # whether the tracker kept what a failed delivery had consumed is its own business until those headers arrive again:
        # meanwhile only the bookkeeping is judged (operations replay to the reported chain, lookups agree with it)
        ctx.probe("judged_bookkeeping_only_while_uncertain")
        if bad_ops is None and L != chain:
            ctx.violate("C15", "ops-replay-mismatch", {"replayed": L[-6:], "reported": chain[-6:], "len_replayed": len(L),
                                                       "len_reported": len(chain), "while": "headers of a failed delivery outstanding"})
            inst.L = list(chain)
        try:
            look = [sut.index_for_hash(h) for h in chain_ids]
        except Exception as e:
            ctx.violate("C15", "query-raised", {"exc": type(e).__name__, "msg": str(e)[:200]})
            raise Abort()
        if look != list(range(n)):
            ctx.violate("C15", "lookup-disagree", {"while": "headers of a failed delivery outstanding", "index_for_hash": look[-6:]})
        inst.locked_since_delivery = False
        return
    if inst.pending_lock_issue is not None:
        # a discrepancy that appeared at a lock counts only if the next delivery did not heal it
        issue, inst.pending_lock_issue = inst.pending_lock_issue, None
        if issue[0] == "lock-corrupt":
            ctx.violate("C15", "lock-corrupt", issue[1])
            raise Abort()
    bad = model.check_chain(chain)
    if bad is not None:
        ctx.violate("C15", bad[0], bad[1])
    else:
        _, ways = model.best_below(model.tip())
        if ways > 1:
            ctx.probe("tie")
    if bad_ops is not None:
        ctx.violate("C15", "ops-malformed", bad_ops)
    if L != chain:
        ctx.violate("C15", "ops-replay-mismatch", {"replayed": L[-6:], "reported": chain[-6:],
                                                   "len_replayed": len(L), "len_reported": len(chain),
                                                   "after_lock": inst.locked_since_delivery})
        inst.L = list(chain)
    # -- lookups --------------------------------------------------------------------------
    try:
        nl, nu = sut.locked_length(), sut.unlocked_length()
        if n != nl + nu:
            ctx.violate("C15", "length-inconsistent", {"length": n, "locked": nl, "unlocked": nu})
        on_chain = set(chain)
        for i, (h, lab) in enumerate(zip(chain_ids, chain)):
            got = sut.index_for_hash(h)
            if got != i:
                ctx.violate("C15", "lookup-disagree", {"hash": lab, "index_for_hash": got, "position": i})
                break
        for lab in model.delivered:
            if lab not in on_chain:
                got = sut.index_for_hash(ids.id_of(lab))
                if got is not None:
                    ctx.violate("C15", "lookup-stale", {"hash": lab, "index_for_hash": got,
                                                        "why": "delivered header not on the reported chain"})
                    break
        if model.check_chain(chain) is None:
            for i, lab in enumerate(chain):
                t = sut.tuple_for_index(i)
                p, w = model.delivered[lab]
                exp = (lab, p, w)
                got = (ids.label(t[0]), ids.label(t[1]), t[2])
                if got != exp:
                    ctx.violate("C15", "tuple-disagree", {"index": i, "got": got, "expected": exp})
                    break
                tn = sut.tuple_for_index(i - n)
                if (ids.label(tn[0]), ids.label(tn[1]), tn[2]) != exp:
                    ctx.violate("C15", "tuple-disagree", {"index": i - n, "got": [ids.label(tn[0]), ids.label(tn[1]), tn[2]],
                                                          "expected": exp})
                    break
        last = ids.label(sut.last_block_hash())
        if last != (chain[-1] if chain else model.anchor):
            ctx.violate("C15", "last-block-disagree", {"got": last, "expected": chain[-1] if chain else model.anchor})
    except Abort:
        raise
    except Exception as e:
        ctx.violate("C15", "query-raised", {"exc": type(e).__name__, "msg": str(e)[:200]})
        raise Abort()
    # -- callbacks ------------------------------------------------------------------------
    for name, cb in sorted(inst.cbs.items()):
        ctx.probe("callback_delivered")
        ok = len(cb.calls) == 1 and cb.calls[0][0] is sut and cb.calls[0][1] == list(ops)
        if not ok:
            ctx.violate("C15", "callback-mismatch", {"cb": name, "calls": len(cb.calls)})
    inst.locked_since_delivery = False
    # abstract state signature of the tracker (measure only; never an oracle)
    try:
        cf = sut.chain_finder
        sig = (sorted(len(v) for v in cf.trees_from_bottom.values()),
               sorted(len(v) for v in cf.descendents_by_top.values()), min(len(model.locked), 3))
        ctx.sig(jdump(sig))
    except Exception:
        pass


def _lock(ctx, ids, inst, st):
    sut, model = inst.sut, inst.model
    if inst.uncertain:
        return  # (the wallet does not lock while headers of a failed delivery are outstanding)
    try:
        n = sut.length()
    except Exception as e:
        ctx.violate("C15", "query-raised", {"exc": type(e).__name__, "msg": str(e)[:200]})
        raise Abort()
    if "back" in st:
        index = max(0, n - st["back"])
    else:
        index = min(st["index"], n)
    before = sut.locked_length()
    ctx.probe("lock")
    if index <= before:
        ctx.probe("lock_noop")
    elif index == n:
        ctx.probe("lock_full_length")
    storage_fault = False
    if st.get("persist_fault") and index > before:
        inst.fail_next_persist = st["persist_fault"]
    try:
        try:
            sut.lock_to_index(index)
        finally:
            storage_fault = inst.fail_next_persist is None and bool(st.get("persist_fault")) and index > before
            inst.fail_next_persist = None
    except _StorageFault:
        # the store refused the new entries.  Whether the lock then counts in memory is the tracker's choice (the durable
        # prefix is what a restart sees); what it may not do is end up describing a chain nobody delivered
        ctx.fault("lock_persist_error")
        ctx.nontrivial = True
        ctx.obs("lock-storage-error", st["bc"], index)
    except Exception as e:
        # the statement speaks about deliveries; remember and judge at the next one
        ctx.probe("lock_raised")
        ctx.obs("lock-raised", type(e).__name__)
        inst.pending_lock_issue = ("lock-corrupt", {"why": "lock_to_index raised", "exc": type(e).__name__,
                                                    "msg": str(e)[:200], "index": index})
        inst.locked_since_delivery = True
        return
    # read the locked prefix (reads of locked entries do not touch the tracker's caches)
    try:
        nl = sut.locked_length()
        tuples = [sut.tuple_for_index(i) for i in range(nl)]
    except Exception as e:
        inst.pending_lock_issue = ("lock-corrupt", {"why": "locked prefix unreadable", "exc": type(e).__name__})
        return
    locked = [ids.label(t[0]) for t in tuples]
    ctx.obs("lock", st["bc"], index, locked[-3:], nl)
    issue = None
    if storage_fault and nl == before:
        pass  # the lock was not applied
    elif nl != max(before, index):
        issue = {"why": "locked length", "got": nl, "expected": max(before, index)}
    elif locked[: len(model.locked)] != model.locked:
        issue = {"why": "old locked prefix changed"}
    else:
        prev = model.tip()
        for lab, t in zip(locked[len(model.locked):], tuples[len(model.locked):]):
            if lab not in model.delivered or model.delivered[lab][0] != prev:
                issue = {"why": "locked entry not linked", "hash": lab}
                break
            if ids.label(t[1]) != prev or t[2] != model.delivered[lab][1]:
                issue = {"why": "locked tuple wrong", "hash": lab}
                break
            prev = lab
    if issue is not None:
        inst.pending_lock_issue = ("lock-corrupt", issue)
    else:
        if nl > len(model.locked):
            inst.locked_since_delivery = True
        model.lock(locked)


def _restart(ctx, ids, inst, st, anchor_label):
    """crash + restart: a new tracker is built from the durable locked prefix only"""
    from pycoin.blockchain.BlockChain import BlockChain
    if inst.pending_lock_issue is not None:
        return  # a lock already went wrong; the next delivery reports it
    inst.uncertain = set()  # nothing unlocked survives a restart, certain or not
    model = inst.model
    durable = list(inst.durable)
    ctx.fault("crash_restart")
    ctx.nontrivial = True
    try:
        if inst.shared:
            sut = BlockChain(ids.id_of(anchor_label), did_lock_to_index_f=inst.persist)
        else:
            sut = BlockChain(ids.id_of(anchor_label), unlocked_block_storage={}, did_lock_to_index_f=inst.persist)
        sut.preload_locked_blocks([SimHeader(h, p, w) if isinstance(h, SimHash) else _Tup(h, p, w) for (h, p, w) in durable])
    except Exception as e:
        ctx.violate("C15", "restart-raised", {"exc": type(e).__name__, "msg": str(e)[:200]})
        raise Abort()
    got = [ids.label(t[0]) for t in durable]
    if inst.persist_faulted and got == model.locked[: len(got)]:
        # a lock whose entries the store refused never became durable: after the restart it never happened
        model.locked = list(got)
    if got != model.locked:
        ctx.violate("C15", "durable-locked-prefix-differs", {"durable": got[-4:], "locked": model.locked[-4:],
                                                             "len": [len(got), len(model.locked)]})
        raise Abort()
    inst.sut = sut
    # everything that was not locked is gone
    keep = set(model.locked)
    model.delivered = {k: v for k, v in model.delivered.items() if k in keep}
    model.children = {}
    for lab in model.locked:
        model.children.setdefault(model.delivered[lab][0], []).append(lab)
    inst.L = list(model.locked)
    inst.cbs = {}
    inst.locked_since_delivery = bool(model.locked)
    ctx.obs("restart", st["bc"], len(durable))


class _Tup(object):
    """header rebuilt from a persisted (hash, parent, weight) tuple (configuration B: real 32-byte ids)"""

    def __init__(self, h, p, w):
        self._h, self.previous_block_hash, self.difficulty = h, p, w

    def hash(self):
        return self._h


def _query(ctx, ids, inst, st):
    sut = inst.sut
    kind, arg = st["kind"], st.get("arg")
    try:
        if kind == "length":
            r = sut.length()
        elif kind == "locked_length":
            r = sut.locked_length()
        elif kind == "unlocked_length":
            r = sut.unlocked_length()
        elif kind == "hash_for_index":
            r = ids.label(sut.hash_for_index(arg))
        elif kind == "tuple_for_index":
            t = sut.tuple_for_index(arg)
            r = [ids.label(t[0]), ids.label(t[1]), t[2]]
        elif kind == "index_for_hash":
            r = sut.index_for_hash(ids.id_of(arg))
        elif kind == "is_hash_known":
            r = sut.is_hash_known(ids.id_of(arg))
        elif kind == "last_block_hash":
            r = ids.label(sut.last_block_hash())
        elif kind == "repr":
            r = len(repr(sut)) > 0
        else:
            return
    except Exception as e:
        r = "raised:" + type(e).__name__
    ctx.obs("query", kind, arg, r)


# ---------------------------------------------------------------------------------------------
# shrinking support, fingerprints, normal forms
# ---------------------------------------------------------------------------------------------

def simplify(plan):
    """candidate simplifications: drop one header from a batch, lower a weight to 1, zero the
    slots, drop tags, turn B into A"""
    steps = plan["steps"]
    for i, st in enumerate(steps):
        if st.get("op") == "deliver" and len(st["batch"]) > 1:
            for j in range(len(st["batch"])):
                c = _copy(plan)
                del c["steps"][i]["batch"][j]
                yield c
    # replace a missing/unknown parent chain: re-parent to anchor is not semantics preserving; skip
    for i, st in enumerate(steps):
        if st.get("op") == "deliver":
            for j, (lab, p, w) in enumerate(st["batch"]):
                if w not in (0, 1):
                    c = _copy(plan)
                    for st2 in c["steps"]:
                        if st2.get("op") == "deliver":
                            for b in st2["batch"]:
                                if b[0] == lab:
                                    b[2] = 1
                    yield c
    cfg = plan["config"]
    if cfg["name"] == "A2-two-instances":
        c = _copy(plan)
        c["config"]["name"] = "A-simhash"
        yield c
    slots = cfg.get("slots", {})
    used = set()
    for st in steps:
        if st.get("op") == "deliver":
            for lab, p, w in st["batch"]:
                used.add(lab)
                used.add(p)
    used.add(cfg.get("anchor", "A"))
    if set(slots) - used:
        c = _copy(plan)
        c["config"]["slots"] = {k: v for k, v in slots.items() if k in used}
        yield c
    # canonical small slots preserving relative order
    vals = sorted(set(slots.values()))
    if vals and vals != list(range(len(vals))):
        m = {v: i for i, v in enumerate(vals)}
        c = _copy(plan)
        c["config"]["slots"] = {k: m[v] for k, v in slots.items()}
        yield c
    for i, st in enumerate(steps):
        if st.get("tags") or "t" in st:
            c = _copy(plan)
            c["steps"][i].pop("tags", None)
            c["steps"][i].pop("t", None)
            yield c
            break


def _copy(plan):
    import copy
    return copy.deepcopy(plan)


def _rename(plan):
    names = {}

    def nm(lab):
        if lab not in names:
            names[lab] = "x%d" % len(names)
        return names[lab]

    out = []
    for st in plan["steps"]:
        op = st.get("op")
        if op == "deliver":
            out.append(["d", st.get("bc"), [[nm(l), nm(p), w] for l, p, w in st["batch"]]])
        elif op == "lock":
            out.append(["l", st.get("bc"), st.get("back"), st.get("index")])
        elif op == "restart":
            out.append(["r", st.get("bc")])
        elif op == "query":
            a = st.get("arg")
            out.append(["q", st.get("kind"), nm(a) if isinstance(a, str) else a])
        else:
            out.append([op, st.get("bc"), st.get("shared")])
    return out, names


def normal_form(plan):
    out, names = _rename(plan)
    slots = plan["config"].get("slots", {})
    order = sorted((slots.get(l, 0), n) for l, n in names.items())
    # slots only matter through the induced order and collisions
    ranks = []
    last = None
    r = -1
    for s, n in order:
        if s != last:
            r += 1
            last = s
        ranks.append((n, r))
    return jdump([plan["config"]["name"], out, sorted(ranks)])


def fingerprint(plan, v):
    """shape of the minimised failing history: violation class + per-step op kinds + forest relations"""
    out, names = _rename(plan)
    shape = []
    for st in out:
        if st[0] == "d":
            shape.append("d(" + ",".join("%s<-%s" % (l, p) for l, p, w in st[2]) + ")")
        elif st[0] == "l":
            shape.append("lock")
        elif st[0] == "r":
            shape.append("restart")
        elif st[0] == "q":
            shape.append("q:" + st[1])
        else:
            shape.append(str(st[0]))
    return "%s: %s" % (v["class"], " ; ".join(shape))
