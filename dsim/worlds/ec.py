"""S-EC: curve arithmetic and ECDSA as a replicated service (C01, C02).

Replicas of "the group and ECDSA over curve E" run side by side through one operation history:
pure-Python Generator instances with plan-chosen blinding entropy, classes built by the OpenSSL
factory under chosen PYCOIN_NATIVE values, the production singletons with their blinding
overwritten by the plan, and the reference model.  No replica may ever diverge from the model or
from another replica, whatever the backend, the entropy, re-blinding or the history before.
"""
import os

from dsim.kernel.core import Abort, HarnessError
from dsim.models import ec as mec
from dsim.seams import backends

NAME = "ec"
PROPS = ["C01", "C02"]
COMPONENTS = {
    "real": ["pycoin.ecdsa.Curve", "pycoin.ecdsa.Point", "pycoin.ecdsa.Generator (real __init__, blinding, tables)",
             "pycoin.ecdsa.rfc6979.deterministic_generate_k", "pycoin.ecdsa.native.openssl (libcrypto via ctypes)",
             "pycoin.ecdsa.secp256k1/secp256r1/bls12_381_g1 production singletons", "pycoin.key.Key.sign/verify",
             "pycoin.ecdsa.encrypt.generate_shared_public_key"],
    "stub": ["entropy bytes (plan)", "PYCOIN_NATIVE environment (plan)",
             "libsecp256k1 replica: ABSENT in this sandbox (library not installed), not stubbed"],
}
RULE = ("plans = curve x replica set (backend / env / entropy) x operation history with planned algebraic relations; "
        "non-trivial iff the history contains a degenerate case (infinity reached, P=+-Q addition, r or s out of range, "
        "cancelling signature, re-blind or rebuild mid-history, degenerate entropy) or ran >= 2 replicas on a 256-bit curve")
FAULT_KINDS = ["entropy_zero", "entropy_ones", "entropy_multiple_of_n", "entropy_cancels_next_scalar", "entropy_short",
               "reblind_mid_history", "rebuild_mid_history", "native_disabled_by_env", "native_enabled_by_env",
               "prod_blinding_overwritten"]
PROBES = ["neighbour_curve_same_prime_same_base_point", "verify_reached_infinity", "add_P_plus_minusP", "add_P_plus_P", "add_with_infinity", "mul_k_multiple_of_n",
          "mul_negative_k", "mul_k_ge_n", "sign_first_nonce_rejected", "r_ge_n_rejected", "s_ge_n_rejected",
          "malleated_s_accepted", "recover_signer_found", "nonce_x_ge_n", "lift_no_point", "ecdh", "keysign", "keyverify_forged_der", "sign_with_callers_nonce_source", "add_operand_representation", "verify_same_signature_against_keys_in_turn",
          "replicas>=3", "pure_replica_on_256bit", "openssl_replica", "libsecp256k1_replica"]

NIDS = {"secp256k1": 714, "secp256r1": 415}


def _curve_from_cfg(cfg):
    c = cfg["curve"]
    if isinstance(c, str):
        return mec.NAMED[c]
    return mec.MCurve.from_params(c)


# ---------------------------------------------------------------------------------------------
# planning
# ---------------------------------------------------------------------------------------------

def _entropy(rng, n, next_scalar=None):
    kind = rng.weighted([("random", 5), ("zero", 1), ("ones", 1), ("multiple_of_n", 1), ("cancel", 1), ("short", 1),
                         ("nm1", 1)])
    if kind == "random":
        b = rng.bytes(32)
    elif kind == "zero":
        b = b"\x00" * 32
    elif kind == "ones":
        b = b"\xff" * 32
    elif kind == "multiple_of_n":
        m = n * rng.between(1, max(1, (1 << 256) // n - 1)) if n < (1 << 255) else n
        b = (m % (1 << 256)).to_bytes(32, "big") if m < (1 << 256) else n.to_bytes(32, "big")
    elif kind == "cancel":
        e = next_scalar if next_scalar is not None else 1
        b = ((-e) % n).to_bytes(32, "big")
    elif kind == "nm1":
        b = (n - 1).to_bytes(32, "big")
    else:
        b = rng.bytes(rng.between(0, 8))
    return kind, b.hex()


def _scalar(rng, n, wide=True):
    return rng.weighted([(0, 2), (1, 2), (2, 1), (n - 1, 2), (n, 2), (n + 1, 2), (2 * n, 1), (-1, 2),
                         (-rng.between(1, 3 * n), 2), (rng.between(0, n - 1), 8), (rng.between(n, 4 * n), 2),
                         (rng.bits(256) if wide else rng.between(0, 5 * n), 3), (1 << 256, 1)])


def _z(rng, n):
    # (shapes: a hash beginning with zero bytes, with only the top bit set, tiny)
    return rng.weighted([(1, 1), (n - 1, 1), (n, 1), (n + 1, 1), (2 * n % (1 << 256) or 1, 1),
                         ((1 << 256) - 1, 1), (rng.between(1, (1 << 256) - 1), 6), (rng.between(1, max(2, n - 1)), 3),
                         (rng.bits(248) or 1, 1.5), (rng.bits(200) or 1, 0.5), (1 << 255, 0.5), (rng.bits(16) or 1, 0.5)])


def _d(rng, n):
    # (shapes: a key shorter than its field, the extremes)
    return rng.weighted([(1, 1), (2, 0.5), (n - 1, 1), (n - 2, 0.5), (rng.between(1, n - 1), 6),
                         (rng.between(1, min(n - 1, (1 << 248) - 1)), 1), (rng.between(1, min(n - 1, (1 << 64))), 0.5)])


def gen_plan(rng, tier, index, config=None):
    if config is None:
        config = rng.weighted([("toy", 50), ("k1-native", 18), ("k1-pure", 8), ("r1-native", 8), ("r1-pure", 4),
                               ("bls", 5), ("k1-env", 7)])
    toys = mec.toy_curves()
    if config == "toy":
        C = rng.pick(toys)
        neighbour = None
        if rng.chance(0.15):
            # another generator was built earlier in this process over the same prime and the same base point, on another curve
            fp, fas = rng.pick(mec.TOY_THROUGH_1_1)
            a1 = rng.pick(fas)
            a2 = rng.pick([x for x in fas if x != a1])
            C = mec.toy_through_1_1(fp, a1)
            neighbour = mec.toy_through_1_1(fp, a2).params()
        curve = C.params()
        replicas = [{"id": "pa", "kind": "pure"}, {"id": "pb", "kind": "pure"}]
        nsteps = rng.between(6, 40 if tier == "thorough" else 24)
    elif config.startswith("k1") or config.startswith("r1"):
        name = "secp256k1" if config.startswith("k1") else "secp256r1"
        C = mec.NAMED[name]
        curve = name
        replicas = [{"id": "ossl", "kind": "factory", "env": rng.pick([None, "openssl", "OpenSSL"])},
                    {"id": "prod", "kind": "prod"}]
        if config.endswith("pure"):
            replicas.append({"id": "pure", "kind": "pure"})
        if config.endswith("env"):
            replicas.append({"id": "envoff", "kind": "factory", "env": rng.pick(["none", "secp256k1", "python"])})
        nsteps = rng.between(4, 14 if config.endswith("native") else 8)
    else:
        C = mec.BLS12_381_G1
        curve = "bls12_381_g1"
        replicas = [{"id": "pure", "kind": "pure"}, {"id": "prod", "kind": "prod"}]
        nsteps = rng.between(3, 6)
    n = C.n
    arithmetic_only = config == "bls"
    big = config != "toy"
    steps = []
    r = rng.fork("ops")
    # known points: scalars whose points the planner computed with the model
    known = []  # (k, point)

    def point(allow_inf=True):
        how = r.weighted([("G", 1), ("known", 3 if known else 0), ("rand", 4), ("inf", 1 if allow_inf else 0)])
        if how == "G":
            return 1, C.G
        if how == "known":
            return r.pick(known)
        if how == "inf":
            return 0, None
        k = r.between(1, n - 1)
        P = C.mul(k, C.G)
        known.append((k, P))
        return k, P

    def enc(P):
        return None if P is None else [P[0], P[1]]

    first_scalar = None
    for rep in replicas:
        kind, hexbytes = _entropy(r, n, None)
        rep["entropy"] = hexbytes
        rep["entropy_kind"] = kind
    signed = []  # (d, z, r, s, R) from the model
    while len(steps) < nsteps:
        op = r.weighted([("mul", 5), ("gmul", 5), ("add", 5), ("neg", 1), ("lift", 2), ("ecdh", 1),
                         ("sign", 0 if arithmetic_only else 5), ("verify", 0 if arithmetic_only else 7),
                         ("recover", 0 if arithmetic_only else 3), ("keysign", 0 if (arithmetic_only or not big) else 1),
                         ("reblind", 2), ("rebuild", 1), ("mulsmall", 2 if not big else 0), ("assoc", 1)])
        if op == "mul":
            k = _scalar(r, n, wide=big)
            _, P = point()
            steps.append({"op": "mul", "k": k, "P": enc(P)})
        elif op == "mulsmall":
            _, P = point()
            steps.append({"op": "mulsmall", "k": r.between(-2 * n - 2, 2 * n + 2), "P": enc(P)})
        elif op == "gmul":
            k = _scalar(r, n, wide=big)
            steps.append({"op": "gmul", "k": k})
        elif op == "add":
            kp, P = point()
            rel = r.weighted([("rand", 4), ("same", 2), ("neg", 2), ("inf", 1)])
            if rel == "same":
                Q = P
            elif rel == "neg":
                Q = C.neg(P)
            elif rel == "inf":
                Q = None
            else:
                _, Q = point()
            steps.append({"op": "add", "P": enc(P), "Q": enc(Q), "sub": r.chance(0.25),
                          "qrep": r.weighted([("point", 6), ("tuple", 1), ("list", 1), ("x_plus_p", 1), ("y_minus_p", 1)])})
        elif op == "assoc":
            _, P = point()
            _, Q = point()
            _, R = point()
            steps.append({"op": "assoc", "P": enc(P), "Q": enc(Q), "R": enc(R)})
        elif op == "neg":
            _, P = point(allow_inf=False)
            steps.append({"op": "neg", "P": enc(P)})
        elif op == "lift":
            x = r.weighted([(0, 1), (1, 1), (C.p - 1, 1), (r.between(0, C.p - 1), 6), (C.G[0], 1)])
            steps.append({"op": "lift", "x": x})
            # the points found this way (x = 0, 1, p-1 among them) take part in the arithmetic that follows
            pts = C.lift_x(x)
            if pts:
                known.append((None, pts[r.below(len(pts))]))
                if r.chance(0.6):
                    steps.append({"op": "mul", "k": _scalar(r, n, wide=big), "P": enc(known[-1][1])})
        elif op == "ecdh":
            steps.append({"op": "ecdh", "dA": r.between(1, n - 1), "dB": r.between(1, n - 1)})
        elif op == "sign":
            d = _d(r, n)
            if signed and r.chance(0.3):
                d = signed[-1][0]
            z = _z(r, n)
            if signed and r.chance(0.15):
                z = signed[-1][1]
            sr, ss, R, first = C.sign_rfc6979(d, z)
            signed.append((d, z, sr, ss, R))
            if r.chance(0.25):
                # the application signed the same digest earlier with its own nonce source (the gen_k hook): a constant, or
                # the library's own RFC 6979 helper run with another hash function
                steps.append({"op": "sign_gen_k", "d": d, "z": z, "how": r.pick(["sha512", "sha1", "const", "sha512"]), "k": r.between(1, n - 1)})
            steps.append({"op": "sign", "d": d, "z": z})
        elif op == "keysign":
            d = _d(r, n)
            hh = r.weighted([(r.bytes(32), 5), (b"\0" + r.bytes(31), 1.5), (bytes(4) + r.bytes(28), 0.5), (r.bytes(31) + b"\0", 0.5),
                             (b"\x80" + bytes(31), 0.3)])
            steps.append({"op": "keysign", "d": d, "h": hh.hex(), "other": r.between(1, n - 1),
                          "forge": r.sample(["flip_s", "r_plus_n", "s_plus_n", "r_zero", "s_zero", "r_n", "s_n", "swap", "s_plus_1"], 3)})
        elif op in ("verify", "recover"):
            if signed and r.chance(0.6):
                d, z, sr, ss, R = r.pick(signed)
            else:
                d = _d(r, n)
                z = _z(r, n)
                sr, ss, R, _ = C.sign_rfc6979(d, z)
                signed.append((d, z, sr, ss, R))
            Q = C.mul(d, C.G)
            if op == "recover":
                how = r.weighted([("valid", 5), ("malleated", 1), ("other_z", 1), ("garbage", 2)])
                rr, s2, z2 = sr, ss, z
                if how == "malleated":
                    s2 = n - ss
                elif how == "other_z":
                    z2 = _z(r, n)
                elif how == "garbage":
                    rr, s2 = r.between(1, n - 1), r.between(1, n - 1)
                steps.append({"op": "recover", "z": z2, "r": rr, "s": s2,
                              "signer": enc(Q) if how in ("valid", "malleated") else None,
                              "nonce_x": R[0] if (how in ("valid", "malleated") and R is not None) else None,
                              "nonce_y_odd": ((R[1] & 1) ^ (1 if how == "malleated" else 0)) if (how in ("valid", "malleated") and R is not None) else None,
                              "parity": r.pick([None, None, 0, 1])})
                continue
            how = r.weighted([("valid", 4), ("malleated", 2), ("other_key", 2), ("other_z", 2), ("r0", 1), ("s0", 1),
                              ("rn", 1), ("sn", 1), ("r_plus_n", 1), ("s_plus_n", 1), ("neg_s", 1), ("cancel", 3),
                              ("garbage", 2), ("r_is_x_mod", 1)])
            rr, s2, z2, Q2 = sr, ss, z, Q
            if how == "malleated":
                s2 = n - ss
            elif how == "other_key":
                Q2 = C.mul(r.between(1, n - 1), C.G)
            elif how == "other_z":
                z2 = _z(r, n)
            elif how == "r0":
                rr = 0
            elif how == "s0":
                s2 = 0
            elif how == "rn":
                rr = n
            elif how == "sn":
                s2 = n
            elif how == "r_plus_n":
                rr = sr + n
            elif how == "s_plus_n":
                s2 = ss + n
            elif how == "neg_s":
                s2 = -ss
            elif how == "cancel":
                # u1*G + u2*Q = ((z + r d)/s) G = infinity  <=>  r = -z/d (mod n)
                rr = (-z2 * pow(d, -1, n)) % n
                s2 = r.between(1, n - 1)
            elif how == "garbage":
                rr, s2 = r.between(0, n + 2), r.between(0, n + 2)
            elif how == "r_is_x_mod" and R is not None:
                rr = R[0]  # unreduced x (differs from r only when x >= n)
            st_ = {"op": "verify", "Q": enc(Q2), "z": z2, "r": rr, "s": s2, "how": how}
            if r.chance(0.35):
                # the way CHECKMULTISIG works: the same signature is tried against several keys, in some order, the right
                # one possibly more than once; and a genuine signature may have gone through just before a forged twin
                other = enc(C.mul(r.between(1, n - 1), C.G))
                st_["keys_in_turn"] = r.pick([["other", "Q"], ["Q", "other", "Q"], ["other", "other", "Q"], ["Q", "Q"]])
                st_["other"] = other
                if how not in ("valid",) and r.chance(0.5):
                    st_["genuine_first"] = {"Q": enc(Q), "z": z, "r": sr, "s": ss}
            steps.append(st_)
        elif op == "reblind":
            rep = r.pick(replicas)
            nxt = _scalar(r, n, wide=big)
            kind, hexbytes = _entropy(r, n, nxt)
            steps.append({"op": "reblind", "rep": rep["id"], "entropy": hexbytes, "entropy_kind": kind})
            steps.append({"op": "gmul", "k": nxt})
        elif op == "rebuild":
            cands = [x for x in replicas if x["kind"] != "prod"]
            if not cands:
                continue
            rep = r.pick(cands)
            nxt = _scalar(r, n, wide=big)
            kind, hexbytes = _entropy(r, n, nxt)
            steps.append({"op": "rebuild", "rep": rep["id"], "entropy": hexbytes, "entropy_kind": kind})
            steps.append({"op": "gmul", "k": nxt})
    cfg_out = {"name": config, "curve": curve, "replicas": replicas, "arithmetic_only": arithmetic_only}
    if config == "toy" and neighbour:
        cfg_out["neighbour"] = neighbour
    return {"world": NAME, "config": cfg_out, "steps": steps}


# ---------------------------------------------------------------------------------------------
# execution
# ---------------------------------------------------------------------------------------------

def _pt(P):
    """pycoin Point -> model point"""
    x, y = P[0], P[1]
    if x is None and y is None:
        return None
    return (x, y)


def _build(rep, C, cfgcurve, entropy_hex, ctx):
    data = bytes.fromhex(entropy_hex)
    kind = rep["kind"]
    if kind == "prod":
        if cfgcurve == "secp256k1":
            from pycoin.ecdsa.secp256k1 import secp256k1_generator as g
        elif cfgcurve == "secp256r1":
            from pycoin.ecdsa.secp256r1 import secp256r1_generator as g
        elif cfgcurve == "bls12_381_g1":
            from pycoin.ecdsa.bls12_381_g1 import bls12_381_g1 as g
        else:
            return None
        if (g.p(), g._a, g._b, _pt(g), g.order()) != (C.p, C.a, C.b, C.G, C.n):
            ctx.violate("C02", "production-curve-parameters", {"curve": cfgcurve})
            raise Abort()
        backends.set_blinding(g, data)
        ctx.fault("prod_blinding_overwritten")
        return g
    if kind == "pure":
        cls, native = backends.replica_class("pure")
    else:
        if cfgcurve not in NIDS:
            return None
        cls, native = backends.replica_class("factory", NIDS[cfgcurve], rep.get("env"))
        env = rep.get("env")
        expect_native = backends.openssl_present() and (env is None or env.lower() == "openssl")
        if native != expect_native:
            ctx.violate("C02", "backend-selection", {"env": env, "native": native, "expected": expect_native})
        if native:
            ctx.probe("openssl_replica")
            if env:
                ctx.fault("native_enabled_by_env")
        elif env:
            ctx.fault("native_disabled_by_env")
    return cls(C.p, C.a, C.b, C.G, C.n, entropy_f=backends.entropy_f_for(data))


def _note_entropy(ctx, kind):
    m = {"zero": "entropy_zero", "ones": "entropy_ones", "multiple_of_n": "entropy_multiple_of_n",
         "cancel": "entropy_cancels_next_scalar", "short": "entropy_short"}
    if kind in m:
        ctx.fault(m[kind])
        ctx.nontrivial = True


def execute(plan, ctx):
    cfg = plan["config"]
    C = _curve_from_cfg(cfg)
    if not isinstance(cfg["curve"], str):
        # a plan-supplied toy curve must really be a prime-order curve, else the model is meaningless
        if not (C.on_curve(C.G) and C.mul_unreduced(C.n, C.G) is None and mec._is_prime(C.n)):
            raise HarnessError("toy curve in plan is not a prime-order group")
    reps = {}
    ctx.step = -1
    if cfg.get("neighbour"):
        # a generator on a neighbouring curve (same prime, same base point, other a, b, n) is built and used first
        NC = mec.MCurve.from_params(cfg["neighbour"])
        if not (NC.on_curve(NC.G) and NC.mul_unreduced(NC.n, NC.G) is None and mec._is_prime(NC.n)):
            raise HarnessError("neighbour curve in plan is not a prime-order group")
        ctx.probe("neighbour_curve_same_prime_same_base_point")
        try:
            ng = _build({"id": "nb", "kind": "pure"}, NC, cfg["neighbour"], "00", ctx)
            for k in (0, 1, 2, 3, NC.n - 1, NC.n + 2):
                got = _pt(ng * k)
                if got != NC.mul_unreduced(k, NC.G):
                    ctx.violate("C02", "gmul:*", {"rep": "nb", "k": k, "curve": NC.name, "got": str(got)})
                    raise Abort()
        except Abort:
            raise
        except Exception as e:
            ctx.violate("C02", "generator-construction-raised", {"rep": "nb", "exc": type(e).__name__, "msg": str(e)[:200]})
            raise Abort()
    for rep in cfg["replicas"]:
        try:
            g = _build(rep, C, cfg["curve"], rep.get("entropy", "00"), ctx)
        except Abort:
            raise
        except Exception as e:
            ctx.violate("C02", "generator-construction-raised", {"rep": rep["id"], "exc": type(e).__name__, "msg": str(e)[:200]})
            raise Abort()
        if g is not None:
            reps[rep["id"]] = (g, rep)
            _note_entropy(ctx, rep.get("entropy_kind"))
    if len(reps) >= 3:
        ctx.probe("replicas>=3")
    big = C.p.bit_length() > 64
    if big and any(rep["kind"] == "pure" or (rep["kind"] == "factory" and (rep.get("env") or "openssl").lower() != "openssl")
                   for _, rep in reps.values()):
        ctx.probe("pure_replica_on_256bit")
    if big and len(reps) >= 2:
        ctx.nontrivial = True
    if backends.libsecp256k1_present():
        ctx.probe("libsecp256k1_replica")
    hist_r = {}  # r -> (d, z) for nonce-sharing detection on production-size curves
    for i, st in enumerate(plan["steps"]):
        ctx.step = i
        ctx.steps_run += 1
        op = st.get("op")
        f = _OPS.get(op)
        if f is None:
            continue
        f(ctx, C, reps, st, hist_r, cfg)
    ctx.sig("%s|%d|%s" % (C.name, len(reps), ",".join(sorted({s.get("op", "?") + ":" + str(s.get("how", "")) for s in plan["steps"]}))))


def _each(ctx, reps, prop, label, fn, expected, eq=None):
    """run fn(generator) on every live replica; every result must equal `expected`"""
    results = {}
    for rid in sorted(reps):
        g = reps[rid][0]
        try:
            got = fn(g)
        except Exception as e:
            got = ("raised", type(e).__name__, str(e)[:120])
        results[rid] = got
        same = (got == expected) if eq is None else eq(got, expected)
        if not same:
            ctx.violate(prop, label, {"replica": rid, "kind": reps[rid][1]["kind"], "env": reps[rid][1].get("env"),
                                      "got": got, "expected": expected})
    ctx.obs(label, results)
    return results


def _P(g, enc):
    if enc is None:
        return g.infinity()
    return g.Point(enc[0], enc[1])


def _m(enc):
    return None if enc is None else (enc[0], enc[1])


def _op_mul(ctx, C, reps, st, hist_r, cfg):
    k, P = st["k"], _m(st["P"])
    exp = C.mul(k, P)
    if k % C.n == 0:
        ctx.probe("mul_k_multiple_of_n")
        ctx.nontrivial = True
    if k < 0:
        ctx.probe("mul_negative_k")
    if k >= C.n:
        ctx.probe("mul_k_ge_n")
    _each(ctx, reps, "C02", "mul:k*P", lambda g: _pt(k * _P(g, st["P"])), exp)
    _each(ctx, reps, "C02", "mul:P*k", lambda g: _pt(_P(g, st["P"]) * k), exp)
    _each(ctx, reps, "C02", "mul:Curve.multiply", lambda g: _pt(g.multiply(_P(g, st["P"]), k)), exp)


def _op_mulsmall(ctx, C, reps, st, hist_r, cfg):
    """k*P equals P added to itself k times: the SUT's own repeated addition, the model's
    unreduced definition and the SUT's multiply must coincide"""
    k, P = st["k"], _m(st["P"])
    exp = C.mul_unreduced(k, P)

    def rep_add(g):
        acc = g.infinity()
        base = _P(g, st["P"])
        if k < 0:
            base = -base if st["P"] is not None else base
        for _ in range(abs(k)):
            acc = acc + base
        return _pt(acc)

    _each(ctx, reps, "C02", "mulsmall:repeated-add", rep_add, exp)
    _each(ctx, reps, "C02", "mulsmall:k*P", lambda g: _pt(k * _P(g, st["P"])), exp)


def _op_gmul(ctx, C, reps, st, hist_r, cfg):
    k = st["k"]
    exp = C.mul(k, C.G)
    if k % C.n == 0:
        ctx.probe("mul_k_multiple_of_n")
        ctx.nontrivial = True
    _each(ctx, reps, "C02", "gmul:k*G", lambda g: _pt(k * g), exp)
    _each(ctx, reps, "C02", "gmul:G*k", lambda g: _pt(g * k), exp)
    _each(ctx, reps, "C02", "gmul:raw_mul", lambda g: _pt(g.raw_mul(k)), exp)


def _op_add(ctx, C, reps, st, hist_r, cfg):
    P, Q = _m(st["P"]), _m(st["Q"])
    if st.get("sub"):
        exp = C.add(P, C.neg(Q))
        _each(ctx, reps, "C02", "sub:P-Q", lambda g: _pt(_P(g, st["P"]) - _P(g, st["Q"])) if st["Q"] is not None
              else _pt(_P(g, st["P"]) + _P(g, st["Q"])), exp)
        return
    exp = C.add(P, Q)
    if P is None or Q is None:
        ctx.probe("add_with_infinity")
        ctx.nontrivial = True
    elif P == Q:
        ctx.probe("add_P_plus_P")
        ctx.nontrivial = True
    elif P == C.neg(Q):
        ctx.probe("add_P_plus_minusP")
        ctx.nontrivial = True
    if not C.on_curve(exp):
        raise HarnessError("model add left the curve")
    _each(ctx, reps, "C02", "add:P+Q", lambda g: _pt(_P(g, st["P"]) + _P(g, st["Q"])), exp)
    _each(ctx, reps, "C02", "add:Q+P", lambda g: _pt(_P(g, st["Q"]) + _P(g, st["P"])), exp)
    # the same second operand in another representation: a bare pair, or a Point whose coordinates are not reduced mod p
    # (the Point constructor accepts it: it is on the curve)
    rep = st.get("qrep", "point")
    if rep != "point" and P is not None and Q is not None:
        ctx.probe("add_operand_representation")

        def qrep(g):
            if rep == "tuple":
                return (Q[0], Q[1])
            if rep == "list":
                return [Q[0], Q[1]]
            if rep == "x_plus_p":
                return g.Point(Q[0] + C.p, Q[1])
            return g.Point(Q[0], Q[1] - C.p)

        _each(ctx, reps, "C02", "add:P+Q(%s)" % rep, lambda g: _pt(_P(g, st["P"]) + qrep(g)), exp)
        if rep in ("x_plus_p", "y_minus_p"):
            _each(ctx, reps, "C02", "add:Q(%s)+P" % rep, lambda g: _pt(qrep(g) + _P(g, st["P"])), exp)


def _op_assoc(ctx, C, reps, st, hist_r, cfg):
    P, Q, R = _m(st["P"]), _m(st["Q"]), _m(st["R"])
    exp = C.add(C.add(P, Q), R)
    _each(ctx, reps, "C02", "assoc:(P+Q)+R", lambda g: _pt((_P(g, st["P"]) + _P(g, st["Q"])) + _P(g, st["R"])), exp)
    _each(ctx, reps, "C02", "assoc:P+(Q+R)", lambda g: _pt(_P(g, st["P"]) + (_P(g, st["Q"]) + _P(g, st["R"]))), exp)


def _op_neg(ctx, C, reps, st, hist_r, cfg):
    exp = C.neg(_m(st["P"]))
    _each(ctx, reps, "C02", "neg:-P", lambda g: _pt(-_P(g, st["P"])), exp)


def _op_lift(ctx, C, reps, st, hist_r, cfg):
    x = st["x"]
    pts = C.lift_x(x)
    if pts is not None and pts[0][1] == 0:
        return  # y = 0 cannot happen on a prime-order curve; nothing stated
    if pts is None:
        ctx.probe("lift_no_point")
        exp = "no-point"
    else:
        exp = [pts[0], pts[1]]

    def f(g):
        try:
            a, b = g.points_for_x(x)
        except ValueError:
            return "no-point"
        return [_pt(a), _pt(b)]

    _each(ctx, reps, "C02", "lift:points_for_x", f, exp)


def _op_ecdh(ctx, C, reps, st, hist_r, cfg):
    from pycoin.ecdsa.encrypt import generate_shared_public_key
    dA, dB = st["dA"], st["dB"]
    QA, QB = C.mul(dA, C.G), C.mul(dB, C.G)
    exp = C.mul(dA * dB, C.G)
    ctx.probe("ecdh")
    _each(ctx, reps, "C02", "ecdh:A", lambda g: _pt(generate_shared_public_key(dA, QB, g)), exp)
    _each(ctx, reps, "C02", "ecdh:B", lambda g: _pt(generate_shared_public_key(dB, QA, g)), exp)


def _op_sign_gen_k(ctx, C, reps, st, hist_r, cfg):
    """Generator.sign with the caller's nonce source.  Judged: the signature verifies for the signer.  (What the plain sign
    of the same key and digest returns afterwards is judged by the sign step that follows.)"""
    import hashlib
    from pycoin.ecdsa.rfc6979 import deterministic_generate_k
    d, z, how = st["d"], st["z"], st["how"]
    n = C.n
    Q = C.mul(d, C.G)
    if how == "const":
        gen_k = lambda order, se, val: st["k"] % order or 1
    else:
        hf = {"sha512": hashlib.sha512, "sha1": hashlib.sha1}[how]
        gen_k = lambda order, se, val: deterministic_generate_k(order, se, val, hash_f=hf)
    ctx.probe("sign_with_callers_nonce_source")
    for rid in sorted(reps):
        g = reps[rid][0]
        try:
            r, s = tuple(g.sign(d, z, gen_k=gen_k))
        except Exception as e:
            ctx.obs("sign_gen_k", rid, "raised", type(e).__name__)
            continue   # (a nonce source of the caller's may be unusable on this curve: nothing stated)
        ctx.obs("sign_gen_k", rid, r, s)
        if not (1 <= r < n and 1 <= s < n) or not C.verify(Q, z, r, s):
            ctx.violate("C01", "signature-does-not-verify", {"replica": rid, "r": r, "s": s, "d": d, "z": z, "gen_k": how})


def _op_sign(ctx, C, reps, st, hist_r, cfg):
    from pycoin.ecdsa.rfc6979 import deterministic_generate_k
    d, z = st["d"], st["z"]
    n = C.n
    mr, ms, R, first = C.sign_rfc6979(d, z)
    k1 = next(C.rfc6979_candidates(d, z))
    Q = C.mul(d, C.G)
    if not first:
        ctx.probe("sign_first_nonce_rejected")
        ctx.nontrivial = True
    try:
        kk = deterministic_generate_k(n, d, z)
    except Exception as e:
        kk = ("raised", type(e).__name__)
    if kk != k1:
        ctx.violate("C01", "rfc6979-nonce", {"got": kk, "expected": k1, "d": d, "z": z})
    for rid in sorted(reps):
        g = reps[rid][0]
        try:
            sig = tuple(g.sign(d, z))
            sig3 = tuple(g.sign_with_recid(d, z))
        except Exception as e:
            ctx.violate("C01", "sign-raised", {"replica": rid, "exc": type(e).__name__, "msg": str(e)[:120]})
            continue
        ctx.obs("sign", rid, sig, sig3[2])
        r, s = sig
        if not (1 <= r < n and 1 <= s < n):
            ctx.violate("C01", "sign-out-of-range", {"replica": rid, "r": r, "s": s})
            continue
        if not C.verify(Q, z, r, s):
            ctx.violate("C01", "signature-does-not-verify", {"replica": rid, "r": r, "s": s, "d": d, "z": z})
        if sig3[:2] != sig:
            ctx.violate("C01", "sign-vs-sign_with_recid", {"replica": rid, "sign": sig, "recid": sig3})
        if first and (r, s) != (mr, ms) and (r, n - s) != (mr, ms):
            ctx.violate("C01", "not-rfc6979", {"replica": rid, "got": [r, s], "expected": [mr, ms], "d": d, "z": z})
        elif first and (r, s) != (mr, ms) and reps[rid][1]["kind"] != "prod":
            # only a libsecp256k1-backed generator may normalise s
            ctx.violate("C01", "not-rfc6979", {"replica": rid, "got": [r, s], "expected": [mr, ms], "why": "s flipped"})
        if C.p.bit_length() > 200:
            # RFC 6979 itself reduces the hash mod n (bits2octets), so z and z+n are the same message to ECDSA
            # and get the same nonce and the same signature: "distinct (key, hash)" means distinct mod n
            prev = hist_r.get(r)
            if prev is not None and prev != (d, z % n):
                ctx.violate("C01", "nonce-shared", {"r": r, "a": prev, "b": [d, z % n]})
            hist_r[r] = (d, z % n)


def _op_verify(ctx, C, reps, st, hist_r, cfg):
    Q, z, r, s = _m(st["Q"]), st["z"], st["r"], st["s"]
    n = C.n
    exp = C.verify(Q, z, r, s)
    if 1 <= r < n and 1 <= s < n:
        w = pow(s, -1, n)
        X = C.add(C.mul(z * w % n, C.G), C.mul(r * w % n, Q))
        if X is None:
            ctx.probe("verify_reached_infinity")
            ctx.nontrivial = True
    else:
        ctx.nontrivial = True
        if r >= n:
            ctx.probe("r_ge_n_rejected")
        if s >= n:
            ctx.probe("s_ge_n_rejected")
    if st.get("how") == "malleated" and exp:
        ctx.probe("malleated_s_accepted")

    def f(g):
        v = g.verify(Q, z, (r, s))
        return v if isinstance(v, bool) else ("non-bool", repr(v))

    if st.get("genuine_first"):
        g0 = st["genuine_first"]
        Q0 = _m(g0["Q"])
        _each(ctx, reps, "C01", "verify", lambda g: bool(g.verify(Q0, g0["z"], (g0["r"], g0["s"]))), C.verify(Q0, g0["z"], g0["r"], g0["s"]))
    res = _each(ctx, reps, "C01", "verify", f, exp)
    if st.get("keys_in_turn"):
        ctx.probe("verify_same_signature_against_keys_in_turn")
        other = _m(st["other"])
        seq = [Q if k == "Q" else other for k in st["keys_in_turn"]]
        exps = [C.verify(K_, z, r, s) for K_ in seq]

        def turn(g):
            out = []
            for K_ in seq:
                v = g.verify(K_, z, (r, s))
                out.append(v if isinstance(v, bool) else ("non-bool", repr(v)))
            return out

        _each(ctx, reps, "C01", "verify", turn, exps)
    return res


def _op_recover(ctx, C, reps, st, hist_r, cfg):
    z, r, s = st["z"], st["r"], st["s"]
    n = C.n
    signer = _m(st.get("signer"))
    nx = st.get("nonce_x")
    parity = st.get("parity")
    for rid in sorted(reps):
        g = reps[rid][0]
        try:
            if parity is None:
                out = g.possible_public_pairs_for_signature(z, (r, s))
            else:
                out = g.possible_public_pairs_for_signature(z, (r, s), y_parity=parity)
            out = [_pt(q) for q in out]
        except Exception as e:
            ctx.violate("C01", "recover-raised", {"replica": rid, "exc": type(e).__name__, "msg": str(e)[:120]})
            continue
        ctx.obs("recover", rid, out)
        for q in out:
            # the point at infinity is returned when s*R = z*G; the verification equation of the
            # statement does hold for it, so it is not flagged (it needs a garbage signature anyway)
            if not C.on_curve(q) or not C.verify(q, z, r, s):
                ctx.violate("C01", "recovered-key-does-not-verify", {"replica": rid, "key": q, "z": z, "r": r, "s": s})
                break
        if signer is not None and nx is not None:
            if nx >= n:
                ctx.probe("nonce_x_ge_n")
            elif parity is None:
                # (calls with a y_parity hint are only held to "every returned key verifies": the statement
                # does not speak about the hint)
                if signer in out:
                    ctx.probe("recover_signer_found")
                else:
                    ctx.violate("C01", "signer-not-recovered", {"replica": rid, "signer": signer, "got": out,
                                                                 "z": z, "r": r, "s": s})


def _op_keysign(ctx, C, reps, st, hist_r, cfg):
    """Key.sign / Key.verify: the DER wrapper over the same generator"""
    from pycoin.key.Key import Key
    d, h, other = st["d"], bytes.fromhex(st["h"]), st["other"]
    z = int.from_bytes(h, "big")
    if z == 0:
        return
    mr, ms, R, first = C.sign_rfc6979(d, z)
    ctx.probe("keysign")
    for rid in sorted(reps):
        g = reps[rid][0]
        try:
            K = Key.make_subclass("SIM", None, g)
            key = K(secret_exponent=d)
            der = key.sign(h)
            rs = _parse_der(der)
            ok_self = key.verify(h, der)
            ok_pub = K(public_pair=C.mul(d, C.G)).verify(h, der)
            ok_other = K(secret_exponent=other).verify(h, der)
            ok_otherh = key.verify(bytes([h[0] ^ 1]) + h[1:], der)
        except Exception as e:
            ctx.violate("C01", "key-sign-verify-raised", {"replica": rid, "exc": type(e).__name__, "msg": str(e)[:120]})
            continue
        ctx.obs("keysign", rid, der.hex())
        if rs is None or (first and rs != (mr, ms) and (rs[0], C.n - rs[1]) != (mr, ms)):
            ctx.violate("C01", "key-sign-not-rfc6979-der", {"replica": rid, "der": der.hex(), "expected": [mr, ms]})
        exp_other = other == d
        if (ok_self, ok_pub, ok_other, ok_otherh) != (True, True, exp_other, False):
            ctx.violate("C01", "key-verify-wrong", {"replica": rid, "self": ok_self, "pub": ok_pub, "other_key": ok_other,
                                                    "other_hash": ok_otherh})
        # well-formed DER carrying other integer pairs: the wrapper must answer what the verification rule says
        if rs is None:
            continue
        Q = C.mul(d, C.G)
        r0, s0 = rs
        for kind in st.get("forge") or []:
            pr = {"flip_s": (r0, C.n - s0), "r_plus_n": (r0 + C.n, s0), "s_plus_n": (r0, s0 + C.n), "r_zero": (0, s0), "s_zero": (r0, 0),
                  "r_n": (C.n, s0), "s_n": (r0, C.n), "swap": (s0, r0), "s_plus_1": (r0, s0 + 1)}[kind]
            try:
                got = key.verify(h, _der(*pr))
            except Exception as e:
                ctx.violate("C01", "key-sign-verify-raised", {"replica": rid, "exc": type(e).__name__, "msg": str(e)[:120], "forged": kind})
                continue
            exp = C.verify(Q, z, pr[0], pr[1])
            ctx.probe("keyverify_forged_der")
            if bool(got) != exp:
                ctx.violate("C01", "key-verify-wrong", {"replica": rid, "forged": kind, "got": bool(got), "expected": exp})


def _der_int(v):
    b = v.to_bytes((v.bit_length() + 8) // 8 or 1, "big")   # always a leading sign bit of 0
    while len(b) > 1 and b[0] == 0 and not (b[1] & 0x80):
        b = b[1:]
    return b"\x02" + bytes([len(b)]) + b


def _der(r, s):
    body = _der_int(r) + _der_int(s)
    return b"\x30" + bytes([len(body)]) + body


def _parse_der(der):
    """strict DER SEQUENCE of two INTEGERs -> (r, s) or None"""
    try:
        if der[0] != 0x30 or der[1] != len(der) - 2 or der[1] >= 0x80:
            return None
        i = 2
        out = []
        for _ in range(2):
            if der[i] != 0x02:
                return None
            ln = der[i + 1]
            body = der[i + 2:i + 2 + ln]
            if len(body) != ln or ln == 0 or body[0] & 0x80:
                return None
            if ln > 1 and body[0] == 0 and not (body[1] & 0x80):
                return None
            out.append(int.from_bytes(body, "big"))
            i += 2 + ln
        if i != len(der):
            return None
        return tuple(out)
    except IndexError:
        return None


def _op_reblind(ctx, C, reps, st, hist_r, cfg):
    ent = reps.get(st["rep"])
    if ent is None:
        return
    try:
        backends.set_blinding(ent[0], bytes.fromhex(st["entropy"]))
    except Exception as e:
        ctx.violate("C02", "reblind-raised", {"replica": st["rep"], "exc": type(e).__name__, "msg": str(e)[:120]})
        return
    ctx.fault("reblind_mid_history")
    _note_entropy(ctx, st.get("entropy_kind"))
    ctx.nontrivial = True


def _op_rebuild(ctx, C, reps, st, hist_r, cfg):
    ent = reps.get(st["rep"])
    if ent is None or ent[1]["kind"] == "prod":
        return
    try:
        g = _build(ent[1], C, cfg["curve"], st["entropy"], ctx)
    except Abort:
        raise
    except Exception as e:
        ctx.violate("C02", "generator-construction-raised", {"rep": st["rep"], "exc": type(e).__name__, "msg": str(e)[:200]})
        return
    reps[st["rep"]] = (g, ent[1])
    ctx.fault("rebuild_mid_history")
    _note_entropy(ctx, st.get("entropy_kind"))
    ctx.nontrivial = True


_OPS = {"mul": _op_mul, "mulsmall": _op_mulsmall, "gmul": _op_gmul, "add": _op_add, "assoc": _op_assoc, "neg": _op_neg,
        "lift": _op_lift, "ecdh": _op_ecdh, "sign": _op_sign, "verify": _op_verify, "recover": _op_recover,
        "keysign": _op_keysign, "sign_gen_k": _op_sign_gen_k, "reblind": _op_reblind, "rebuild": _op_rebuild}


# ---------------------------------------------------------------------------------------------

def simplify(plan):
    import copy
    cfg = plan["config"]
    if len(cfg["replicas"]) > 1:
        for i in range(len(cfg["replicas"])):
            c = copy.deepcopy(plan)
            del c["config"]["replicas"][i]
            yield c
    for i, rep in enumerate(cfg["replicas"]):
        if rep.get("entropy") not in ("00", None):
            c = copy.deepcopy(plan)
            c["config"]["replicas"][i]["entropy"] = "00"
            c["config"]["replicas"][i]["entropy_kind"] = "zero"
            yield c


def normal_form(plan):
    from dsim.kernel.core import jdump
    cfg = plan["config"]
    return jdump([cfg["curve"] if isinstance(cfg["curve"], str) else cfg["curve"]["name"],
                  [(r["kind"], r.get("env"), r.get("entropy_kind")) for r in cfg["replicas"]],
                  [{k: v for k, v in s.items()} for s in plan["steps"]]])


def fingerprint(plan, v):
    cfg = plan["config"]
    curve = cfg["curve"] if isinstance(cfg["curve"], str) else "toy"
    d = v.get("detail") or {}
    ops = [s.get("op") + (":" + s["how"] if s.get("how") else "") for s in plan["steps"]]
    return "%s: curve=%s replica-kind=%s ops=%s" % (v["class"], curve, d.get("kind", "-"), ",".join(ops))
