"""S-WIRE: the transport hops of S-COSIGN / S-WALLET in isolation (C07, narrow).

The same `wire_big` and spendable-record steps S-COSIGN runs between its parties, without the
(expensive) signing around them, so that transactions crossing the 0xfc/0xfd/0xffff/0x10000
compact-size boundaries (input / output / witness counts, script and witness-item lengths) and
64-bit amounts are reached often within the quick budget.  Every hop is a real Tx.stream / Tx.parse /
from_hex / as_hex on the coin's own Tx class (BTC, LTC, BCH, BTG); the oracle is models/wire.py.
Nothing here injects a fault: C07 states nothing about corrupted bytes.
"""
from dsim.kernel.core import jdump
from dsim.worlds import cosign as cs

NAME = "wire"
PROPS = ["C07"]
COMPONENTS = {
    "real": ["network.tx.stream / parse / as_bin / from_bin / as_hex / from_hex / id / w_id (BTC, LTC, BCH, BTG classes)",
             "Spendable text / dict / binary forms"],
    "stub": ["sender and receiver (same process)", "no faults: the statement says nothing about corrupted bytes"],
}
RULE = ("plans = coin class x which count or length crosses which compact-size boundary x amounts; non-trivial iff a count "
        "or length >= 0xfd is on the wire")
FAULT_KINDS = []
PROBES = ["wire_tx_set_witness_one_shot_iterator", "wire_tx_null_prevout", "wire_tx_witness", "wire_tx_witness_only_empty_items", "wire_tx_unspents", "wire_big_inputs", "wire_big_outputs", "wire_big_out_script", "wire_big_in_script", "wire_big_witness_item",
          "wire_big_witness_count", "inputs>=253", "n=0xfc", "n=0xfd", "n=0xffff", "n=0x10000"]


def gen_plan(rng, tier, index, config=None):
    r = rng.fork("ops")
    net = config or r.pick(["BTC", "BTC", "LTC", "BCH", "BTG", "XTN"])
    steps = []
    for _ in range(r.between(1, 5)):
        # small transactions with every witness shape: absent, empty items only, mixed, on some inputs only
        nin = r.weighted([(1, 4), (2, 3), (3, 1)])
        ins = []
        for _j in range(nin):
            shape = r.weighted([("none", 4), ("empty1", 1), ("empty2", 1), ("mixed", 2), ("full", 3), ("big", 0.3)])
            wit = {"none": [], "empty1": [""], "empty2": ["", ""], "mixed": ["", r.bytes(r.between(1, 40)).hex(), ""],
                   "full": [r.bytes(72).hex(), r.bytes(33).hex()], "big": [r.bytes(600).hex()]}[shape]
            ins.append({"prev": "00" * 32 if r.chance(0.08) else r.bytes(32).hex(), "idx": r.pick([0, 1, 0xFFFFFFFF, r.bits(32)]), "script": r.bytes(r.pick([0, 0, 23, 107])).hex(),
                        "seq": r.pick([0xFFFFFFFF, 0, r.bits(32)]), "witness": wit})
        outs = [{"value": r.pick([0, 1, 546, (1 << 64) - 1, r.bits(64)]), "script": r.bytes(r.pick([0, 22, 25, 34])).hex()}
                for _k in range(r.weighted([(0, 1), (1, 4), (2, 3)]))]
        st = {"op": "wire_tx", "tx": {"version": r.pick([1, 2, 0xFFFFFFFF, r.bits(32)]), "ins": ins, "outs": outs,
                                      "locktime": r.pick([0, 499999999, 0xFFFFFFFF, r.bits(32)])}}
        st["wit_via"] = r.pick([None, None, "list", "tuple", "iter", "gen"])
        if r.chance(0.5):
            st["unspents"] = [[r.pick([1, 546, 21 * 10**14, 21 * 10**14 + 1, (1 << 63) - 1, 1 << 63, (1 << 64) - 1, r.bits(64) or 1]),
                               r.bytes(r.pick([0, 22, 25, 34])).hex()] for _j in range(nin)]
        steps.append(st)
    heights = [0, 1, 0xFC, 0xFD, 500000, 0xFFFF, 0x10000, 0x02000000, 0x02000001, (1 << 31) - 1, (1 << 32) - 1]
    for _ in range(r.between(0, 2)):
        steps.append({"op": "spendable_rec", "value": r.pick([1, 546, 21 * 10**14, (1 << 63) - 1, (1 << 64) - 1, r.bits(64) or 1]),
                      "script": r.bytes(r.pick([0, 22, 25, 34, 0xFC, 0xFD, 300])).hex(), "prev": r.bytes(32).hex(),
                      "idx": r.pick([0, 1, 0xFFFFFFFF, r.bits(32)]), "bia": r.pick(heights), "spent": r.chance(0.3), "bis": r.pick(heights)})
    for _ in range(r.between(0, 3)):
        what = r.pick(["inputs", "outputs", "out_script", "in_script", "witness_item", "witness_count"])
        small = what in ("inputs", "outputs", "witness_count")
        n = r.weighted([(0xFC, 3), (0xFD, 3), (0xFE, 1), (300, 1), (r.between(0, 400), 2)]) if small else \
            r.weighted([(0xFC, 2), (0xFD, 2), (0xFFFE, 1), (0xFFFF, 3), (0x10000, 3), (0x10001, 1), (r.between(0, 70000), 2)])
        steps.append({"op": "wire_big", "what": what, "n": n, "seed": r.bits(32),
                      "value": r.pick([0, 1, (1 << 64) - 1, (1 << 63), 21 * 10**14, r.bits(64)])})
    return {"world": NAME, "config": {"name": net, "network": net, "sig": {"BCH": "bch", "BTG": "btg"}.get(net, "btc"), "keys": []},
            "steps": steps}


def execute(plan, ctx):
    for st in plan["steps"]:
        n = st.get("n")
        for k, v in (("n=0xfc", 0xFC), ("n=0xfd", 0xFD), ("n=0xffff", 0xFFFF), ("n=0x10000", 0x10000)):
            if n == v:
                ctx.probe(k)
        if n is not None and n >= 0xFD:
            ctx.nontrivial = True
        if st.get("op") == "wire_tx" and any(i["witness"] for i in st["tx"]["ins"]):
            ctx.nontrivial = True
        if st.get("op") == "wire_tx" and any(i["prev"] == "00" * 32 for i in st["tx"]["ins"]):
            ctx.probe("wire_tx_null_prevout")
    cs.execute(plan, ctx)


def normal_form(plan):
    return jdump([plan["config"]["network"], [[s.get("what"), s.get("n"), s.get("value"), s.get("tx")] for s in plan["steps"]]])


def fingerprint(plan, v):
    d = v.get("detail") or {}
    return "%s: net=%s %s n=%s" % (v["class"], plan["config"]["network"], d.get("enc"), d.get("n"))
