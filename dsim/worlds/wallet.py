"""S-WALLET: a wallet spending what untrusted services report, through a cache on a faulty disk
(C13; C07 for every store/load through real streams).

Parties: a ledger (ground truth, model), 1-3 providers (honest / failing / lying), a disk (SimFS),
a wallet process that may crash and restart.
Real: services.tx_db.TxDb (get/put/paths on the simulated disk), Tx.parse/stream through it,
tx_utils.create_tx / distribute_from_split_pool / split_with_remainder, Tx.set_unspents /
unspents_from_db / validate_unspents / fee / total_in / total_out, Spendable text/dict forms,
convention conversions.  Stub: providers, file system, ledger.
"""
import copy
import decimal
import errno
import io

from dsim.kernel.core import jdump
from dsim.models import wire as mw
from dsim.seams.simfs import SimFS
from dsim.seams.simhash import SimBytes

NAME = "wallet"
PROPS = ["C13", "C07", "C06"]
COMPONENTS = {
    "real": ["pycoin.services.tx_db.TxDb on a simulated disk", "pycoin.coins.tx_utils.create_tx / create_signed_tx / distribute_from_split_pool (three build routes)",
             "Tx.validate_unspents / unspents_from_db / fee / total_in / total_out", "Tx.parse / Tx.stream via cache files",
             "Spendable.as_text/from_text/as_dict/from_dict", "pycoin.convention conversions", "convention.tx_fee"],
    "stub": ["ledger (ground truth)", "providers (plan-driven: honest, fail, none, other tx, tampered tx; through TxDb, unfiltered, or a plain dict)",
             "file system (SimFS: torn / lost / empty / flipped / misdirected files, EIO, ENOSPC, EACCES, crash)"],
}
RULE = ("plans = ledger x provider behaviour x spendable lies x payable lists (fixed / unspecified) x fees x storage fault "
        "schedule x crash points; non-trivial iff a lie or storage/provider fault was in effect when a transaction was "
        "validated, a split pool had a remainder, or funds were insufficient")
FAULT_KINDS = ["spendable_lie_amount", "spendable_lie_script", "spendable_lie_index", "spendable_lie_txid", "provider_fail",
               "provider_none", "provider_other_tx", "provider_tampered_tx", "source_returns_stale_object_on_miss", "provider_inconsistent_answers", "fs_open_w_error", "fs_open_r_error",
               "fs_write_enospc", "fs_read_eio", "fs_bit_flip", "fs_misdirected_write", "fs_missing_dir", "crash_restart",
               "crash_torn_file", "crash_lost_file", "crash_empty_file"]
PROBES = ["split_remainder_nonzero", "insufficient_funds_refused", "less_than_one_satoshi_each_refused", "all_outputs_fixed",
          "fee_standard", "validate_refused_lie", "validate_returned_fee", "validate_raised_under_fault", "cache_hit",
          "cache_roundtrip_bytes", "torn_cache_file_read", "provider_lookup_cached", "observed_stuck_after_heal",
          "observed_txdb_returned_unrequested_tx", "spendable_form_text", "spendable_form_dict", "display_roundtrip",
          "attach_unspents", "fee_after_in_place_edit", "validate_against_unfiltered_source", "validate_against_plain_dict",
          "validate_refused_colluding_source", "attach_left_unknown", "build_by_hand_distribute_from_split_pool", "build_create_signed_tx", "build_args_are_generators", "fee_with_unpaired_unspents_refused", "attach_in_place", "caller_edits_its_lists_after_build"]

CACHE = "/wallet/cache"


def _p2pkh(h):
    return b"\x76\xa9\x14" + h + b"\x88\xac"


# ---------------------------------------------------------------------------------------------
# planning
# ---------------------------------------------------------------------------------------------

def _amount(r):
    return r.weighted([(1, 1), (2, 1), (546, 1), (1000, 2), (10**5, 2), (10**8, 2), (r.between(1, 10**9), 6),
                       (21 * 10**14, 1), (r.between(1, 21 * 10**14), 2)])


_POOL = {}


def _key_hash(d):
    """hash160 of the compressed public key of secret d (planner side, by the model; memoised pure function)"""
    if d not in _POOL:
        from dsim.models import bip32 as mb, ec as mec
        _POOL[d] = mb.hash160(mb.ser_p(mec.SECP256K1.mul_g(d))).hex()
    return _POOL[d]


def gen_plan(rng, tier, index, config=None):
    r = rng.fork("ops")
    # the wallet's own keys: small secrets from a fixed pool, so that the one-call signing route can be taken too
    ds = r.sample(range(1, 17), 5)
    keys = [_key_hash(d) for d in ds]
    steps = []
    faulty = config != "fault-free" and r.chance(0.75)
    ntx = 0
    outs_of = {}
    vals_of = {}
    nbuilt = 0
    nsteps = r.between(6, 40 if tier == "thorough" else 24)
    steps.append({"op": "db_new", "cache": r.chance(0.85), "providers": [0] if r.chance(0.6) else [0, 1]})
    while len(steps) < nsteps:
        op = r.weighted([("mint", 4 if ntx < 8 else 1), ("build", 6 if ntx else 0), ("validate", 6 if nbuilt else 0),
                         ("edit", 3 if nbuilt else 0),
                         ("attach", 2 if nbuilt else 0), ("fetch", 3 if ntx else 0), ("put", 2 if ntx else 0), ("display", 2),
                         ("provider", 3 if faulty else 0), ("fs_fault", 4 if faulty else 0), ("crash", 1.5 if faulty else 0),
                         ("db_new", 0.5)])
        if op == "mint":
            nout = r.between(1, 4)
            tx = {"version": 1,
                  "ins": [{"prev": r.bytes(32).hex(), "idx": r.below(4), "script": r.bytes(r.pick([0, 40, 107])).hex(),
                           "seq": 0xFFFFFFFF, "witness": []} for _ in range(r.between(1, 2))],
                  "outs": [{"value": _amount(r), "key": r.below(len(keys))} for _ in range(nout)], "locktime": 0}
            if r.chance(0.3) and nout >= 2:
                tx["outs"][1] = dict(tx["outs"][0])  # two identical outputs: a wrong index is then no discrepancy
            steps.append({"op": "mint", "id": "t%d" % ntx, "tx": tx})
            outs_of["t%d" % ntx] = nout
            vals_of["t%d" % ntx] = [o["value"] for o in tx["outs"]]
            ntx += 1
        elif op == "build":
            spends = []
            for _ in range(r.weighted([(1, 5), (2, 3), (3, 1), (5, 1)])):
                t = "t%d" % r.below(ntx)
                idx = r.below(outs_of[t])
                lie = None
                if faulty and r.chance(0.25):
                    k = r.weighted([("amount", 4), ("script", 2), ("index", 2), ("txid", 1)])
                    if k == "amount":
                        lie = {"kind": "amount", "delta": r.pick([1, -1, 1000, -1000, 10**8, r.between(-10**6, 10**6) or 1])}
                    elif k == "script":
                        lie = {"kind": "script", "key": r.below(len(keys))}
                    elif k == "index":
                        lie = {"kind": "index", "to": r.pick([0, 1, 2, 3, outs_of[t], 7])}
                    else:
                        lie = {"kind": "txid", "hash": r.bytes(32).hex()}
                spends.append({"tx": t, "idx": idx, "lie": lie, "form": r.weighted([("obj", 3), ("text", 2), ("dict", 2)])})
            pays = []
            for _ in range(r.weighted([(1, 4), (2, 4), (3, 2), (5, 1)])):
                amt = r.weighted([(None, 3), (0, 1), ("amt", 5)])
                if amt == "amt":
                    amt = r.weighted([(1, 1), (546, 1), (r.between(1, 10**6), 4), (r.between(1, 10**9), 2)])
                pays.append([r.below(len(keys)), amt, "bare" if amt is None else "tuple"])
            fee = r.weighted([(0, 2), (1, 1), (1000, 2), (10000, 2), (r.between(0, 10**6), 3), ("standard", 1),
                              (r.between(10**8, 10**10), 0.5), ("boundary", 4)])
            if fee == "boundary":
                # put what is left for the split pool right at the edges: -1, 0, k-1, k, k+1, 2k-1 ... satoshis for k outputs
                tin = 0
                for sp in spends:
                    v = vals_of[sp["tx"]][sp["idx"]]
                    if sp["lie"] and sp["lie"]["kind"] == "amount":
                        v = max(1, v + sp["lie"]["delta"])
                    elif sp["lie"] and sp["lie"]["kind"] == "index":
                        v = None
                    if v is None:
                        tin = None
                        break
                    tin += v
                zc = sum(1 for p_ in pays if not p_[1])
                fixed_ = sum(p_[1] for p_ in pays if p_[1])
                if tin is None or zc == 0 or tin - fixed_ < 0:
                    fee = 0
                else:
                    target = r.pick([-1, 0, zc - 1, zc, zc + 1, 2 * zc - 1, 2 * zc, 3 * zc + 1, 7])
                    fee = max(0, tin - fixed_ - target)
            steps.append({"op": "build", "id": "x%d" % nbuilt, "spend": spends, "pay": pays, "fee": fee,
                          "lock_time": r.pick([0, 0, 500000]), "version": r.pick([1, 1, 2]),
                          "route": r.weighted([("create_tx", 4), ("manual", 1), ("signed", 1)]),
                          "container": r.weighted([("list", 4), ("tuple", 1), ("generator", 1)]),
                          "caller_edits": r.weighted([(None, 3), ("reverse", 1), ("pop", 1), ("clear", 1), ("replace", 1)])})
            nbuilt += 1
        elif op == "validate":
            steps.append({"op": "validate", "tx": "x%d" % r.below(nbuilt), "db": r.weighted([("txdb", 5), ("raw", 3 if faulty else 1), ("dict", 1)])})
        elif op == "edit":
            steps.append({"op": "edit", "tx": "x%d" % r.below(nbuilt), "how": r.pick(["unspent_value_inplace", "unspent_replace", "out_value",
                                                                                     "set_unspents_same_list", "input_removed"]),
                          "i": r.bits(8), "delta": r.pick([1, -1, 7, 1000, -1000, 30000])})
        elif op == "attach":
            steps.append({"op": "attach", "tx": "x%d" % r.below(nbuilt), "ignore_missing": r.chance(0.4),
                          "db": r.weighted([("txdb", 4), ("raw_stale", 1 if faulty else 0)]), "inplace": r.chance(0.3)})
            if steps[-1]["inplace"] and r.chance(0.6):
                # ... and then goes on working with that transaction: a record corrected in place, validated again
                steps.append({"op": "edit", "tx": steps[-1]["tx"], "how": "unspent_value_inplace", "i": r.bits(8), "delta": r.pick([1, -1, 1000])})
                steps.append({"op": "validate", "tx": steps[-1]["tx"], "db": r.pick(["txdb", "raw", "dict"])})
        elif op == "fetch":
            steps.append({"op": "fetch", "tx": "t%d" % r.below(ntx)} if r.chance(0.9) else {"op": "fetch", "hash": r.bytes(32).hex()})
        elif op == "put":
            steps.append({"op": "put", "tx": "t%d" % r.below(ntx)})
        elif op == "display":
            steps.append({"op": "display", "amount": r.weighted([(0, 1), (1, 1), (10**8, 1), (21 * 10**14, 1), (_amount(r), 5),
                                                                  (r.between(0, 21 * 10**14), 4)])})
        elif op == "provider":
            steps.append({"op": "provider", "p": r.below(2), "mode": r.weighted([("honest", 3), ("fail", 2), ("none", 2),
                                                                                 ("other", 2), ("tamper", 2), ("tamper_after_first", 1)])})
        elif op == "fs_fault":
            k = r.weighted([("open_w", 2), ("open_r", 2), ("enospc_after", 3), ("eio_after", 2), ("flip", 3), ("misdirect", 2),
                            ("missing_dir", 1)])
            st = {"op": "fs_fault", "kind": k}
            if k in ("open_w", "open_r"):
                st["errno"] = r.pick(["EIO", "EACCES", "ENOSPC"])
            elif k in ("enospc_after", "eio_after"):
                st["after"] = r.weighted([(0, 1), (3, 1), (4, 1), (5, 1), (r.between(0, 200), 5)])
            elif k == "flip":
                st.update({"pick": r.bits(16), "offset": r.bits(16), "bit": r.below(8)})
            elif k == "misdirect":
                st.update({"src": r.bits(16), "dst": r.bits(16)})
            steps.append(st)
            # place the fault inside an operation that creates in-flight state
            if ntx and r.chance(0.7):
                steps.append({"op": r.pick(["fetch", "put"]), "tx": "t%d" % r.below(ntx)})
        elif op == "crash":
            oc = []
            for _ in range(r.between(1, 3)):
                oc.append(r.weighted([("ok", 2), ("lost", 2), ("empty", 1), (["torn", r.bits(16)], 3)]))
            steps.append({"op": "crash", "outcomes": oc})
            steps.append({"op": "db_new", "cache": True, "providers": [0] if r.chance(0.6) else [0, 1]})
        else:
            steps.append({"op": "db_new", "cache": r.chance(0.85), "providers": [0] if r.chance(0.6) else [0, 1]})
    if faulty and r.chance(0.12):
        # a provider and a spendable report that tell the same lie: only the id of the returned transaction gives it away
        t = "t%d" % ntx
        k = r.between(1, 3)
        steps.append({"op": "mint", "id": t, "tx": {"version": 1, "ins": [{"prev": r.bytes(32).hex(), "idx": 0, "script": "", "seq": 0xFFFFFFFF,
                                                                             "witness": []}],
                                                    "outs": [{"value": _amount(r), "key": r.below(len(keys))} for _ in range(k)], "locktime": 0}})
        ntx += 1
        two = k >= 2 and r.chance(0.5)
        md = "tamper_after_first" if two else "tamper"
        steps.append({"op": "provider", "p": 0, "mode": md})
        steps.append({"op": "provider", "p": 1, "mode": md})
        spend = [{"tx": t, "idx": 0, "lie": {"kind": "amount", "delta": 1000}, "form": "obj"}]
        if two:
            # two inputs from the same source, the doctored one asked about second: a source that answers the second
            # request for the same transaction differently
            spend = [{"tx": t, "idx": 1, "lie": None, "form": "obj"}] + spend
        steps.append({"op": "build", "id": "x%d" % nbuilt, "spend": spend,
                      "pay": [[r.below(len(keys)), None, "bare"]], "fee": r.pick([0, 1000]), "lock_time": 0, "version": 1})
        steps.append({"op": "validate", "tx": "x%d" % nbuilt, "db": r.pick(["raw", "raw", "txdb"])})
        nbuilt += 1
    if faulty and r.chance(0.1):
        # a signed transaction one of whose inputs spends something nobody has heard of, attached from a source that fails open
        t = "t%d" % ntx
        kk = r.below(len(keys))
        steps.append({"op": "mint", "id": t, "tx": {"version": 1, "ins": [{"prev": r.bytes(32).hex(), "idx": 0, "script": "", "seq": 0xFFFFFFFF,
                                                                             "witness": []}],
                                                    "outs": [{"value": 50000, "key": kk}, {"value": 50000, "key": kk}], "locktime": 0}})
        ntx += 1
        steps.append({"op": "provider", "p": 0, "mode": "honest"})
        steps.append({"op": "provider", "p": 1, "mode": "honest"})
        steps.append({"op": "build", "id": "x%d" % nbuilt, "route": "signed", "container": "list",
                      "spend": [{"tx": t, "idx": 0, "lie": None, "form": "obj"},
                                {"tx": t, "idx": 1, "lie": {"kind": "txid", "hash": r.bytes(32).hex()}, "form": "obj"}],
                      "pay": [[r.below(len(keys)), None, "bare"]], "fee": 1000, "lock_time": 0, "version": 1})
        steps.append({"op": "attach", "tx": "x%d" % nbuilt, "ignore_missing": r.chance(0.7), "db": "raw_stale"})
        nbuilt += 1
    if faulty and nbuilt and r.chance(0.5):
        # heal: faults stop, providers honest; does the wallet recover? (observation only)
        steps.append({"op": "provider", "p": 0, "mode": "honest"})
        steps.append({"op": "provider", "p": 1, "mode": "honest"})
        steps.append({"op": "heal_probe"})
    return {"world": NAME, "config": {"name": "faulty" if faulty else "fault-free", "network": r.pick(["BTC", "BTC", "XTN"]),
                                      "keys": keys, "ds": ds}, "steps": steps}


# ---------------------------------------------------------------------------------------------
# execution
# ---------------------------------------------------------------------------------------------

class _W(object):
    pass


def _ledger_tx(W, t):
    keys = W.keys
    return {"version": t["version"],
            "ins": [{"prev": bytes.fromhex(i["prev"]), "idx": i["idx"], "script": bytes.fromhex(i["script"]), "seq": i["seq"],
                     "witness": []} for i in t["ins"]],
            "outs": [{"value": o["value"], "script": _p2pkh(keys[o["key"]])} for o in t["outs"]], "locktime": t["locktime"]}


def execute(plan, ctx):
    from pycoin.networks.registry import network_for_netcode
    import pycoin.services.tx_db as tx_db_mod
    W = _W()
    cfg = plan["config"]
    W.net = network_for_netcode(cfg["network"])
    W.keys = [bytes.fromhex(k) for k in cfg["keys"]]
    W.ds = cfg.get("ds") or []
    W.fs = SimFS()
    W.ledger = {}       # id -> (model tx, bytes, txid)
    W.by_hash = {}
    W.providers = {0: "honest", 1: "honest"}
    W.lookups_seen = {}
    W.db = None
    W.built = {}
    W.dirty = False     # any storage / provider fault so far in this run
    W.mod = tx_db_mod
    saved_open = tx_db_mod.__dict__.get("open", None)
    saved_os = tx_db_mod.os
    tx_db_mod.open = W.fs.open
    tx_db_mod.os = W.fs.os_shim()
    try:
        for i, st in enumerate(plan["steps"]):
            ctx.step = i
            ctx.steps_run += 1
            f = _OPS.get(st.get("op"))
            if f is not None:
                f(ctx, W, st)
        for k, v in W.fs.fired.items():
            ctx.fault({"open_w_error": "fs_open_w_error", "open_r_error": "fs_open_r_error", "write_enospc": "fs_write_enospc",
                       "read_eio": "fs_read_eio"}[k], v)
    finally:
        tx_db_mod.os = saved_os
        if saved_open is None:
            tx_db_mod.__dict__.pop("open", None)
        else:
            tx_db_mod.open = saved_open


def _provider(W, ctx, p):
    from pycoin.coins.bitcoin.Tx import Tx

    def lookup(key):
        mode = W.providers.get(p, "honest")
        key = bytes(key)
        if mode == "fail":
            ctx.fault("provider_fail")
            raise IOError("provider %d unreachable (simulated)" % p)
        if mode == "none":
            ctx.fault("provider_none")
            return None
        ent = W.by_hash.get(key)
        if mode == "other":
            others = sorted(h for h in W.by_hash if h != key)
            if others:
                ctx.fault("provider_other_tx")
                return Tx.from_bin(W.by_hash[others[0]][1])
            return None
        if ent is None:
            return None
        if mode == "tamper_after_first":
            # answers the first request for a transaction honestly and every later request for it with a doctored copy
            seen = W.lookups_seen.get((p, key), 0)
            W.lookups_seen[(p, key)] = seen + 1
            if seen == 0:
                return Tx.from_bin(ent[1])
            mode = "tamper"
            ctx.fault("provider_inconsistent_answers")
        if mode == "tamper":
            ctx.fault("provider_tampered_tx")
            m = copy.deepcopy(ent[0])
            m["outs"][0]["value"] += 1000
            return Tx.from_bin(mw.enc_tx(m))
        return Tx.from_bin(ent[1])

    return lookup


def _op_db_new(ctx, W, st):
    try:
        W.db = W.mod.TxDb(lookup_methods=[_provider(W, ctx, p) for p in st["providers"]],
                          writable_cache_path=CACHE if st["cache"] else None)
    except OSError:
        W.db = W.mod.TxDb(lookup_methods=[_provider(W, ctx, p) for p in st["providers"]])
    ctx.obs("db_new", st["cache"], st["providers"])


def _op_mint(ctx, W, st):
    m = _ledger_tx(W, st["tx"])
    raw = mw.enc_tx(m)
    h = mw.txid(m)
    W.ledger[st["id"]] = (m, raw, h)
    W.by_hash[h] = (m, raw, st["id"])


def _op_provider(ctx, W, st):
    W.providers[st["p"]] = st["mode"]
    if st["mode"] != "honest":
        W.dirty = True


def _pyc_tx(W, tid):
    from pycoin.coins.bitcoin.Tx import Tx
    return Tx.from_bin(W.ledger[tid][1])


def _op_put(ctx, W, st):
    if W.db is None or st["tx"] not in W.ledger:
        return
    m, raw, h = W.ledger[st["tx"]]
    armed = W.fs.open_error or W.fs.write_fail_after is not None
    try:
        W.db.put(_pyc_tx(W, st["tx"]))
    except Exception as e:
        # put() promises nothing under faults; in fault-free storage it must not raise
        if not armed and not W.dirty:
            ctx.violate("C07", "txdb-put-raised", {"exc": type(e).__name__, "msg": str(e)[:200]})
        return
    if W.db.writable_cache_path and not armed and (CACHE in W.fs.dirs):
        path = "%s/%s_tx.bin" % (CACHE, h[::-1].hex())
        got = W.fs.files.get(path)
        ctx.obs("put", st["tx"], None if got is None else len(got))
        if got != raw:
            ctx.violate("C07", "cache-file-bytes", {"tx": st["tx"], "got": None if got is None else got.hex()[:80],
                                                    "expected": raw.hex()[:80]})
        else:
            ctx.probe("cache_roundtrip_bytes")


def _op_fetch(ctx, W, st):
    if W.db is None:
        return
    if "hash" in st:
        key = bytes.fromhex(st["hash"])
        ent = None
    else:
        if st["tx"] not in W.ledger:
            return
        ent = W.ledger[st["tx"]]
        key = ent[2]
    path = "%s/%s_tx.bin" % (CACHE, key[::-1].hex())
    cached_before = W.fs.files.get(path)
    armed = bool(W.fs.open_error or W.fs.read_fail_after is not None or W.fs.write_fail_after is not None)
    try:
        tx = W.db.get(key)
    except Exception as e:
        ctx.obs("fetch", "raised", type(e).__name__)
        if cached_before is not None and ent is not None and cached_before != ent[1]:
            ctx.probe("torn_cache_file_read")
        if not W.dirty and not armed:
            ctx.violate("C07", "txdb-get-raised", {"exc": type(e).__name__, "msg": str(e)[:200]})
        return
    if tx is None:
        ctx.obs("fetch", None)
        if ent is not None and not W.dirty and not armed and (W.db.lookup_methods or cached_before is not None):
            ctx.violate("C07", "txdb-lost-tx", {"tx": st.get("tx")})
        return
    got = mw.tx_from_pycoin(tx)
    ctx.obs("fetch", mw.txid(got)[::-1].hex())
    if mw.txid(got) != key:
        # not stated by any claimed property (validate_unspents re-checks ids); recorded, not alarmed
        ctx.probe("observed_txdb_returned_unrequested_tx")
        return
    if cached_before is not None and W.db.writable_cache_path:
        ctx.probe("cache_hit")
    if ent is not None:
        if got != ent[0] and not W.dirty:
            ctx.violate("C07", "txdb-roundtrip-fields", {"tx": st.get("tx")})
        if tx.as_bin() != ent[1] and not W.dirty:
            ctx.violate("C07", "txdb-roundtrip-bytes", {"tx": st.get("tx")})
        if bytes(tx.hash()) != ent[2] or tx.id() != ent[2][::-1].hex():
            ctx.violate("C07", "tx-id", {"tx": st.get("tx"), "got": tx.id()})
        if cached_before is None and W.db.writable_cache_path and W.fs.files.get(path) == ent[1]:
            ctx.probe("provider_lookup_cached")


def _op_fs_fault(ctx, W, st):
    W.dirty = True
    k = st["kind"]
    fs = W.fs
    if k == "open_w":
        fs.open_error = ("w", getattr(errno, st["errno"]))
    elif k == "open_r":
        fs.open_error = ("r", getattr(errno, st["errno"]))
    elif k == "enospc_after":
        fs.write_fail_after = st["after"]
    elif k == "eio_after":
        fs.read_fail_after = st["after"]
    elif k == "flip":
        paths = sorted(fs.files)
        if paths and fs.flip(paths[st["pick"] % len(paths)], st["offset"], st["bit"]):
            ctx.fault("fs_bit_flip")
    elif k == "misdirect":
        paths = sorted(fs.files)
        if len(paths) >= 2:
            a, b = paths[st["src"] % len(paths)], paths[st["dst"] % len(paths)]
            if a != b:
                fs.files[b] = fs.files[a]
                ctx.fault("fs_misdirected_write")
    elif k == "missing_dir":
        fs.dirs.discard(CACHE)
        ctx.fault("fs_missing_dir")


def _op_crash(ctx, W, st):
    W.dirty = True
    before = dict(W.fs.files)
    W.fs.crash(st["outcomes"])
    ctx.fault("crash_restart")
    for p, b in before.items():
        a = W.fs.files.get(p)
        if a is None:
            ctx.fault("crash_lost_file")
        elif a == b"" and b:
            ctx.fault("crash_empty_file")
        elif a != b:
            ctx.fault("crash_torn_file")
    W.db = None


def _spendable(W, ctx, sp):
    """returns (object to hand to create_tx, recorded (value, script, txhash, idx), truth or None)"""
    m, raw, h = W.ledger[sp["tx"]]
    idx = sp["idx"]
    value, script = m["outs"][idx]["value"], m["outs"][idx]["script"]
    txh = h
    lie = sp.get("lie")
    if lie:
        if lie["kind"] == "amount":
            value = max(1, value + lie["delta"])
            ctx.fault("spendable_lie_amount")
        elif lie["kind"] == "script":
            script = _p2pkh(W.keys[lie["key"]])
            ctx.fault("spendable_lie_script")
        elif lie["kind"] == "index":
            idx = lie["to"]
            ctx.fault("spendable_lie_index")
        elif lie["kind"] == "txid":
            txh = bytes.fromhex(lie["hash"])
            ctx.fault("spendable_lie_txid")
    S = W.net.tx.Spendable
    obj = S(value, script, txh, idx)
    form = sp.get("form", "obj")
    if form == "text":
        ctx.probe("spendable_form_text")
        obj = obj.as_text()
    elif form == "dict":
        ctx.probe("spendable_form_dict")
        obj = obj.as_dict()
    return obj, (value, script, txh, idx)


def _truth(W, txh, idx):
    ent = W.by_hash.get(txh)
    if ent is None:
        return None
    outs = ent[0]["outs"]
    if idx < 0 or idx >= len(outs):
        return None
    return outs[idx]["value"], outs[idx]["script"]


def _op_build(ctx, W, st):
    if any(sp["tx"] not in W.ledger for sp in st["spend"]):
        return
    objs, rec = [], []
    for sp in st["spend"]:
        try:
            o, rcd = _spendable(W, ctx, sp)
        except Exception as e:
            ctx.violate("C07", "spendable-form-raised", {"form": sp.get("form"), "exc": type(e).__name__, "msg": str(e)[:200]})
            return
        objs.append(o)
        rec.append(rcd)
    payables = []
    for k, amt, form in st["pay"]:
        addr = W.net.address.for_p2pkh(W.keys[k])
        payables.append(addr if (amt is None and form == "bare") else (addr, amt or 0))
    fee = st["fee"]
    total_in = sum(v for v, _, _, _ in rec)
    fixed = sum(a for _, a, _ in st["pay"] if a)
    zero = sum(1 for _, a, _ in st["pay"] if not a)
    if fee == "standard":
        ctx.probe("fee_standard")
        shape = {"version": st["version"], "locktime": st["lock_time"],
                 "ins": [{"prev": h, "idx": i & 0xFFFFFFFF, "script": b"", "seq": 0xFFFFFFFF, "witness": []} for _, _, h, i in rec],
                 "outs": [{"value": 0, "script": _p2pkh(W.keys[k])} for k, _, _ in st["pay"]]}
        fee_n = 10000 * ((999 + len(mw.enc_tx(shape))) // 1000)
    else:
        fee_n = fee
    remaining = total_in - fixed - fee_n
    must_raise = zero > 0 and (remaining < 0 or remaining < zero)
    def create(objs, payables, **kw):
        # the argument containers the caller happens to use: lists, tuples, or generators that can be consumed once
        cont = st.get("container", "list")
        if cont == "tuple":
            objs, payables = tuple(objs), tuple(payables)
        elif cont == "generator" and st.get("route") != "manual":
            objs, payables = (o for o in list(objs)), (p_ for p_ in list(payables))
            ctx.probe("build_args_are_generators")
        if st.get("route") == "signed" and W.ds:
            # the one-call route: the wallet holds the keys of every output it ever received
            ctx.probe("build_create_signed_tx")
            wifs = [W.net.keys.private(d).wif() for d in W.ds]
            return W.net.tx_utils.create_signed_tx(objs, payables, wifs=wifs, **kw)
        if st.get("route") != "manual":
            return W.net.tx_utils.create_tx(objs, payables, **kw)
        # the same thing by hand: the wallet assembles the transaction itself and asks for the split pool to be distributed
        from pycoin.coins import tx_utils
        Tx = W.net.tx
        sps = [o if isinstance(o, Tx.Spendable) else (Tx.Spendable.from_dict(o) if hasattr(o, "keys") else Tx.Spendable.from_text(o))
               for o in objs]
        outs_ = [Tx.TxOut(0 if isinstance(p_, str) else p_[1], W.net.contract.for_address(p_ if isinstance(p_, str) else p_[0]))
                 for p_ in payables]
        t = Tx(kw["version"], [sp.tx_in() for sp in sps], outs_, kw["lock_time"])
        t.set_unspents(sps)
        n_zero = tx_utils.distribute_from_split_pool(t, kw["fee"])
        if n_zero != zero:
            ctx.violate("C13", "split-pool-count", {"got": n_zero, "expected": zero})
        ctx.probe("build_by_hand_distribute_from_split_pool")
        return t

    try:
        tx = create(objs, payables, fee=fee, lock_time=st["lock_time"], version=st["version"])
    except ValueError as e:
        ctx.obs("build", "ValueError")
        if not must_raise:
            ctx.violate("C13", "create-tx-refused-sufficient-funds", {"inputs": total_in, "fixed": fixed, "fee": fee_n,
                                                                      "unspecified": zero, "msg": str(e)[:120]})
        else:
            ctx.nontrivial = True
            ctx.probe("insufficient_funds_refused" if remaining < 0 else "less_than_one_satoshi_each_refused")
        return
    except Exception as e:
        ctx.violate("C13", "create-tx-raised", {"exc": type(e).__name__, "msg": str(e)[:200]})
        return
    # the same call again with the very same argument objects must give the same transaction
    try:
        tx_again = create(objs, payables, fee=fee, lock_time=st["lock_time"], version=st["version"])
        if [o.coin_value for o in tx_again.txs_out] != [o.coin_value for o in tx.txs_out] or tx_again.as_bin() != tx.as_bin():
            ctx.violate("C13", "create-tx-not-repeatable", {"first": [o.coin_value for o in tx.txs_out],
                                                            "second": [o.coin_value for o in tx_again.txs_out]})
    except ValueError:
        if not must_raise:
            ctx.violate("C13", "create-tx-not-repeatable", {"second": "ValueError"})
    except Exception as e:
        ctx.violate("C13", "create-tx-raised", {"exc": type(e).__name__, "msg": str(e)[:200], "when": "second call"})
    if must_raise:
        ctx.violate("C13", "insufficient-funds-not-refused", {"inputs": total_in, "fixed": fixed, "fee": fee_n, "unspecified": zero,
                                                              "outputs": [o.coin_value for o in tx.txs_out]})
        return
    how = st.get("caller_edits")
    if how and isinstance(objs, list) and isinstance(payables, list) and st.get("container", "list") == "list" and objs:
        # the caller goes on using the very lists it passed (for its next transaction): the one already built keeps
        # describing itself, whatever happens to them
        ctx.probe("caller_edits_its_lists_after_build")
        if how == "reverse":
            objs.reverse()
            payables.reverse()
        elif how == "pop":
            objs.pop()
        elif how == "clear":
            del objs[:]
            del payables[:]
        elif how == "replace":
            objs[0] = objs[-1]
            objs.append(objs[0])
    outs = [o.coin_value for o in tx.txs_out]
    ctx.obs("build", outs)
    # expected outputs
    exp = []
    if zero:
        each, extra = divmod(remaining, zero)
        if extra:
            ctx.probe("split_remainder_nonzero")
            ctx.nontrivial = True
        zi = 0
        for _, a, _ in st["pay"]:
            if a:
                exp.append(a)
            else:
                exp.append(each + (1 if zi < extra else 0))
                zi += 1
    else:
        ctx.probe("all_outputs_fixed")
        exp = [a for _, a, _ in st["pay"]]
    if outs != exp:
        ctx.violate("C13", "split-pool-amounts", {"got": outs, "expected": exp, "inputs": total_in, "fee": fee_n})
    if zero and sum(outs) + fee_n != total_in:
        ctx.violate("C13", "value-not-conserved", {"inputs": total_in, "outputs": sum(outs), "fee": fee_n})
    for o, (k, _, _) in zip(tx.txs_out, st["pay"]):
        if bytes(o.script) != _p2pkh(W.keys[k]):
            ctx.violate("C13", "output-script", {"key": k})
            break
    try:
        f, ti, to = tx.fee(), tx.total_in(), tx.total_out()
    except Exception as e:
        ctx.violate("C13", "fee-raised", {"exc": type(e).__name__, "msg": str(e)[:200]})
        return
    if ti != total_in or to != sum(outs) or f != total_in - sum(outs):
        ctx.violate("C13", "fee-identity", {"fee": f, "total_in": ti, "total_out": to, "inputs": total_in, "outputs": sum(outs)})
    if len(tx.txs_in) != len(rec) or len(tx.unspents) != len(rec):
        ctx.violate("C13", "input-pairing", {"why": "count"})
    else:
        for i, (v, s, h, idx) in enumerate(rec):
            ti_, u = tx.txs_in[i], tx.unspents[i]
            if (bytes(ti_.previous_hash), ti_.previous_index) != (h, idx) or \
                    (u.coin_value, bytes(u.script), bytes(u.tx_hash), u.tx_out_index) != (v, s, h, idx):
                ctx.violate("C13", "input-pairing", {"index": i})
                break
    if tx.version != st["version"] or tx.lock_time != st["lock_time"]:
        ctx.violate("C13", "version-locktime", {})
    _own_hash_order(tx)
    W.built[st["id"]] = (tx, rec, outs)


def _own_hash_order(tx):
    """validate_unspents collects the spent transaction ids in a set and walks it: give them plan-determined slots"""
    for ti in tx.txs_in:
        ti.previous_hash = SimBytes(ti.previous_hash)


class _DictDb(dict):
    def get(self, key, default=None):
        return dict.get(self, bytes(key), default)


def _discrepancy(W, rec):
    for v, s, h, idx in rec:
        t = _truth(W, h, idx)
        if t is None or t != (v, s):
            return True
    return False


class _RawDb(object):
    """what a caller passes when it has no TxDb: anything with get(); here the providers, unfiltered"""

    def __init__(self, lookups, stale_on_miss=False):
        self.lookups = lookups
        self.lookup_methods = lookups
        self.stale_on_miss = stale_on_miss
        self.last = None

    def get(self, key):
        for f in self.lookups:
            t = f(key)
            if t is not None:
                self.last = t
                return t
        if self.stale_on_miss and self.last is not None:
            # a one-slot cache that fails open: asked for something it does not have, it hands back (the very object of)
            # what it returned last
            return self.last
        return None


def _op_validate(ctx, W, st):
    ent = W.built.get(st["tx"])
    if ent is None or W.db is None:
        return
    tx, rec, outs = ent
    lie = _discrepancy(W, rec)
    db = W.db
    kind = st.get("db", "txdb")
    if kind == "raw":
        db = _RawDb([_provider(W, ctx, p) for p in sorted(W.providers)])
        ctx.probe("validate_against_unfiltered_source")
    elif kind == "dict":
        from pycoin.coins.bitcoin.Tx import Tx
        db = _DictDb((h, Tx.from_bin(e[1])) for h, e in W.by_hash.items())
        ctx.probe("validate_against_plain_dict")
    armed = bool(W.fs.open_error or W.fs.read_fail_after is not None or W.fs.write_fail_after is not None)
    if lie or W.dirty:
        ctx.nontrivial = True
    ctx.sig("%s|%s|%s|cache%d|files%d|lie%d|in%d" % (kind, sorted(W.providers.items()), bool(W.db.writable_cache_path), len(W.fs.files) > 0,
                                                       min(len(W.fs.files), 5), lie, len(rec)))
    try:
        fee = tx.validate_unspents(db)
    except Exception as e:
        ctx.obs("validate", "raised", type(e).__name__)
        if lie:
            ctx.probe("validate_refused_lie")
            if kind == "raw" and any(m == "tamper" for m in W.providers.values()):
                ctx.probe("validate_refused_colluding_source")
        elif (W.dirty or armed) and kind != "dict":
            ctx.probe("validate_raised_under_fault")
        elif kind == "dict" or W.db.lookup_methods:
            ctx.violate("C13", "validate-refused-honest-spendables", {"exc": type(e).__name__, "msg": str(e)[:200]})
        return
    ctx.obs("validate", fee)
    if lie:
        ctx.violate("C13", "validate-unspents-accepted-discrepancy",
                    {"recorded": [[v, s.hex(), h[::-1].hex(), i] for v, s, h, i in rec],
                     "truth": [None if _truth(W, h, i) is None else [_truth(W, h, i)[0], _truth(W, h, i)[1].hex()] for _, _, h, i in rec]})
        return
    ctx.probe("validate_returned_fee")
    true_in = sum(_truth(W, h, i)[0] for _, _, h, i in rec)
    if fee != true_in - sum(outs):
        ctx.violate("C13", "validate-unspents-wrong-fee", {"got": fee, "expected": true_in - sum(outs)})


def _op_edit(ctx, W, st):
    """the wallet corrects a recorded amount / an output on the transaction it already built and whose fee it already
    displayed: the reported fee must follow (it always equals inputs minus outputs)"""
    ent = W.built.get(st["tx"])
    if ent is None:
        return
    tx, rec, outs = ent
    if st["how"] == "input_removed":
        # the wallet drops an input from the list but forgets the spent output recorded for it: until that is put right
        # no fee may be reported (it "always equals inputs minus outputs", and the two lists no longer pair up)
        if len(tx.txs_in) < 2 or len(tx.unspents) != len(tx.txs_in):
            return
        k = st["i"] % len(tx.txs_in)
        try:
            tx.fee()
            del tx.txs_in[k]
        except Exception as e:
            ctx.violate("C13", "fee-raised", {"exc": type(e).__name__, "msg": str(e)[:200], "after": "edit input_removed (before)"})
            return
        ctx.probe("fee_with_unpaired_unspents_refused")
        for name, f in (("fee", tx.fee), ("total_in", tx.total_in)):
            try:
                v = f()
            except Exception:
                continue
            ctx.violate("C13", "fee-reported-with-unpaired-unspents", {"what": name, "value": v, "inputs": len(tx.txs_in), "unspents": len(tx.unspents)})
        # put right: the recorded output of the removed input goes too
        del tx.unspents[k]
        rec = [x for i_, x in enumerate(rec) if i_ != k]
        W.built[st["tx"]] = (tx, rec, outs)
        try:
            f_, ti_, to_ = tx.fee(), tx.total_in(), tx.total_out()
        except Exception as e:
            ctx.violate("C13", "fee-raised", {"exc": type(e).__name__, "msg": str(e)[:200], "after": "edit input_removed (repaired)"})
            return
        total_in = sum(v for v, _, _, _ in rec)
        if (f_, ti_, to_) != (total_in - sum(outs), total_in, sum(outs)):
            ctx.violate("C13", "fee-identity", {"after": "edit input_removed", "fee": f_, "total_in": ti_, "total_out": to_})
        return
    try:
        tx.fee()   # the fee has been looked at before the edit
        how = st["how"]
        if how == "out_value":
            if not tx.txs_out:
                return
            k = st["i"] % len(tx.txs_out)
            tx.txs_out[k].coin_value = max(0, tx.txs_out[k].coin_value + st["delta"])
            outs = [o.coin_value for o in tx.txs_out]
        else:
            k = st["i"] % len(rec)
            v, s_, h, idx = rec[k]
            nv = max(1, v + st["delta"])
            if how == "unspent_value_inplace":
                tx.unspents[k].coin_value = nv
            elif how == "unspent_replace":
                tx.unspents[k] = W.net.tx.Spendable(nv, s_, h, idx)
            else:
                lst = tx.unspents
                lst[k] = W.net.tx.Spendable(nv, s_, h, idx)
                tx.set_unspents(lst)
            rec = list(rec)
            rec[k] = (nv, s_, h, idx)
        f, ti, to = tx.fee(), tx.total_in(), tx.total_out()
    except Exception as e:
        ctx.violate("C13", "fee-raised", {"exc": type(e).__name__, "msg": str(e)[:200], "after": "edit " + st["how"]})
        return
    W.built[st["tx"]] = (tx, rec, outs)
    ctx.probe("fee_after_in_place_edit")
    ctx.obs("edit", st["how"], f)
    total_in = sum(v for v, _, _, _ in rec)
    if (f, ti, to) != (total_in - sum(outs), total_in, sum(outs)):
        ctx.violate("C13", "fee-identity", {"after": "edit " + st["how"], "fee": f, "total_in": ti, "total_out": to,
                                            "inputs": total_in, "outputs": sum(outs)})


def _op_attach(ctx, W, st):
    ent = W.built.get(st["tx"])
    if ent is None or W.db is None:
        return
    tx, rec, outs = ent
    if st.get("inplace") and st.get("db", "txdb") == "txdb" and not st.get("ignore_missing"):
        # the wallet reloads the spent outputs of the very transaction it keeps working with (not of a copy)
        truth_ = [_truth(W, h, i) for _, _, h, i in rec]
        try:
            tx.unspents_from_db(W.db)
        except Exception as e:
            ctx.obs("attach-inplace", "raised", type(e).__name__)
            return
        got_ = [(u.coin_value, bytes(u.script)) for u in tx.unspents]
        ctx.obs("attach-inplace", [g[0] for g in got_])
        ctx.probe("attach_in_place")
        if any(t is None for t in truth_):
            ctx.violate("C13", "unspents-from-db-invented-output", {"inplace": True})
        elif got_ != truth_:
            ctx.violate("C13", "unspents-from-db-wrong-output", {"inplace": True, "got": [g[0] for g in got_], "truth": [t[0] for t in truth_]})
        else:
            # the records now say what the ledger says
            rec = [(t[0], t[1], h, i) for t, (_, _, h, i) in zip(truth_, rec)]
            _own_hash_order(tx)
            W.built[st["tx"]] = (tx, rec, outs)
        return
    t2 = copy.deepcopy(tx)
    t2.unspents = []
    ctx.probe("attach_unspents")
    db = W.db
    if st.get("db") == "raw_stale":
        db = _RawDb([_provider(W, ctx, p) for p in sorted(W.providers)], stale_on_miss=True)
        ctx.fault("source_returns_stale_object_on_miss")
    if st.get("ignore_missing"):
        # spent outputs the source cannot supply stay unknown: no fee is reported and the input is never valid
        try:
            t2.unspents_from_db(db, ignore_missing=True)
        except Exception as e:
            ctx.obs("attach", "raised", type(e).__name__)
            return
        truth = [_truth(W, h, i) for _, _, h, i in rec]
        unknown = [j for j, u in enumerate(t2.unspents) if u is None]
        ctx.obs("attach", "ignore_missing", unknown)
        for j, u in enumerate(t2.unspents):
            if truth[j] is None:
                # the source of this input is unknown to everybody: whatever was attached, the input is never valid (C06)
                try:
                    okj = t2.is_solution_ok(j)
                except Exception:
                    okj = False
                if okj:
                    ctx.violate("C06", "valid-without-spent-output", {"input": j, "attached": None if u is None else u.coin_value,
                                                                     "source": st.get("db", "txdb")})
            if u is not None and (truth[j] is None or (u.coin_value, bytes(u.script)) != truth[j]):
                ctx.violate("C13", "unspents-from-db-wrong-output", {"input": j, "ignore_missing": True})
                return
        if unknown:
            ctx.probe("attach_left_unknown")
            ctx.nontrivial = True
            try:
                f = t2.fee()
                ctx.violate("C13", "fee-reported-with-unknown-input", {"fee": f, "unknown": unknown})
            except Exception:
                pass
        return
    try:
        t2.unspents_from_db(db)
        fee = t2.fee()
    except Exception as e:
        ctx.obs("attach", "raised", type(e).__name__)
        return
    truth = [_truth(W, h, i) for _, _, h, i in rec]
    ctx.obs("attach", fee)
    if any(t is None for t in truth):
        ctx.violate("C13", "unspents-from-db-invented-output", {})
        return
    got = [(u.coin_value, bytes(u.script)) for u in t2.unspents]
    if got != truth or fee != sum(t[0] for t in truth) - sum(outs):
        ctx.violate("C13", "unspents-from-db-wrong-output", {"got": [g[0] for g in got], "truth": [t[0] for t in truth]})


def _op_display(ctx, W, st):
    from pycoin import convention as cv
    n = st["amount"]
    D = decimal.Decimal
    try:
        b = cv.satoshi_to_btc(n)
        mb_ = cv.satoshi_to_mbtc(n)
        s_full = "%d.%08d" % divmod(n, 10**8)
        s_trim = s_full.rstrip("0").rstrip(".") or "0"
        got = (cv.btc_to_satoshi(b), cv.btc_to_satoshi(str(b)), cv.mbtc_to_satoshi(mb_), cv.mbtc_to_satoshi(str(mb_)),
               cv.btc_to_satoshi(s_full), cv.btc_to_satoshi(s_trim), cv.mbtc_to_satoshi("%d.%05d" % divmod(n, 10**5)))
    except Exception as e:
        ctx.violate("C13", "conversion-raised", {"amount": n, "exc": type(e).__name__, "msg": str(e)[:200]})
        return
    ctx.probe("display_roundtrip")
    ctx.obs("display", n, str(b))
    if b != D(n).scaleb(-8) or mb_ != D(n).scaleb(-5):
        ctx.violate("C13", "conversion-value", {"amount": n, "btc": str(b), "mbtc": str(mb_)})
    if any(g != n for g in got):
        ctx.violate("C13", "conversion-roundtrip", {"amount": n, "got": list(got)})


def _op_heal_probe(ctx, W, st):
    """observation only: once faults stop and providers are honest, does get() recover?"""
    if W.db is None:
        _op_db_new(ctx, W, {"cache": True, "providers": [0]})
    W.fs.open_error = W.fs.write_fail_after = W.fs.read_fail_after = None
    for tid in sorted(W.ledger):
        key = W.ledger[tid][2]
        try:
            tx = W.db.get(key)
            ok = tx is not None and bytes(tx.hash()) == key
        except Exception:
            ok = False
        if not ok:
            ctx.probe("observed_stuck_after_heal")
            break


_OPS = {"db_new": _op_db_new, "mint": _op_mint, "provider": _op_provider, "put": _op_put, "fetch": _op_fetch,
        "fs_fault": _op_fs_fault, "crash": _op_crash, "build": _op_build, "validate": _op_validate, "edit": _op_edit, "attach": _op_attach,
        "display": _op_display, "heal_probe": _op_heal_probe}


def normal_form(plan):
    out = []
    for s in plan["steps"]:
        if s.get("op") == "mint":
            out.append(["mint", len(s["tx"]["outs"])])
        else:
            out.append(s)
    return jdump([plan["config"]["name"], out])


def fingerprint(plan, v):
    return "%s: cfg=%s ops=%s" % (v["class"], plan["config"]["name"], ",".join(s.get("op", "?") for s in plan["steps"]))


def simplify(plan):
    for i, st in enumerate(plan["steps"]):
        if st.get("op") == "build":
            if len(st["spend"]) > 1:
                for j in range(len(st["spend"])):
                    c = copy.deepcopy(plan)
                    del c["steps"][i]["spend"][j]
                    yield c
            if len(st["pay"]) > 1:
                for j in range(len(st["pay"])):
                    c = copy.deepcopy(plan)
                    del c["steps"][i]["pay"][j]
                    yield c
