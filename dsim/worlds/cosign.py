"""S-COSIGN: multi-party signing, tampering and re-validation of one shared mutable Tx
(C05, C06, C04, C07).

Parties: a coordinator that builds the transaction, cosigners holding subsets of the keys and
supplying them through different mechanisms (lookup dict, WIF list via tx_utils.sign_tx,
Keychain over a fault-injecting SQLite proxy), a network that carries copies between them as
hex / binary with or without the spent-output extension, a tamperer, and validators.
Real: Tx, TxIn, TxOut, Tx.sign / Solver / some_solvers / ConstraintSolver, Keychain,
tx_utils.sign_tx, build_hash160_lookup / build_p2sh_lookup, is_solution_ok / check_solution /
bad_solution_count, SolutionChecker / SegwitChecker / fork-id checkers, VM + checksig code,
Tx.stream / parse / as_hex / from_hex.
Stub: parties, network, SQLite faults.  Oracles: models/stdvalidate.py, sighash.py, wire.py, ec.py.
"""
import copy
import hashlib
import io
import struct

from dsim.kernel.core import Abort, HarnessError, jdump
from dsim.models import ec as mec
from dsim.models import sighash as sh
from dsim.models import stdvalidate as sv
from dsim.models import wire as mw
from dsim.seams.simsqlite import SimConnection

NAME = "cosign"
PROPS = ["C05", "C06", "C04", "C07"]
COMPONENTS = {
    "real": ["network.tx (Tx/TxIn/TxOut) incl. LTC, BCH, BTG classes", "Tx.sign -> Solver, some_solvers, ConstraintSolver",
             "tx_utils.sign_tx (WIF supply) / create_signed_tx (one call)", "pycoin.key.Keychain over sqlite3 (supply + p2sh lookup)",
             "build_hash160_lookup / build_p2sh_lookup", "Tx.is_solution_ok / check_solution / bad_solution_count",
             "SolutionChecker, SegwitChecker, P2SChecker, Bcash/Bgold checkers, BitcoinVM, checksigops",
             "Tx.stream / parse / as_hex / from_hex / as_bin(include_unspents)", "secp256k1 production generator"],
    "stub": ["coordinator / cosigners / tamperer / validators", "network between parties", "SQLite statement faults"],
}
RULE = ("plans = coin x puzzle kinds x m-of-n x key forms x hash types x key-supply mechanism x signing-pass order x "
        "transport encodings x tamper/revert/validate histories; non-trivial iff the run had >= 2 signing passes on one "
        "copy, a tamper followed by validation, a non-ALL hash type, or a key-store fault")
FAULT_KINDS = ["stale_copy_signed", "duplicate_pass", "wrong_key_pass", "scripts_withheld", "db_statement_error", "db_secrets_cleared",
               "tamper_field", "tamper_unlocking_data", "tamper_signature_hash_type", "tamper_unspent", "unspent_dropped", "revert"]
PROBES = ["kind:p2pk", "kind:p2pkh", "kind:multisig", "kind:p2sh-multisig", "kind:p2wpkh", "kind:p2wsh-multisig",
          "kind:p2sh-p2wpkh", "kind:p2sh-p2wsh-multisig", "n>=16", "m>=10", "uncompressed_key", "hash_type_non_all",
          "anyonecanpay", "sighash_single_no_output", "partial_then_complete", "order_permutation_checked",
          "supply_dict", "supply_wifs", "supply_keychain", "supply_keychain_hd", "keychain_reused_across_passes", "backend_pure_python", "coin_bch", "coin_btg", "coin_ltc", "coin_other", "coin_grs_classes_direct",
          "wire_hex", "wire_bin", "wire_unspents", "txid_stable_after_witness_sign", "digest_at_seam_checked",
          "sighash_direct_256", "codeseparator_script", "noncommitted_change_still_valid", "committed_change_invalidates",
          "revalidate_fresh_equal", "default_flags_verdict_checked", "inputs>=253", "spendable_form_text", "spendable_form_dict", "spendable_form_bin", "wire_big_inputs", "wire_big_outputs",
          "wire_big_out_script", "wire_big_in_script", "wire_big_witness_item", "wire_big_witness_count",
          "oneshot_create_signed_tx", "oneshot_refused_missing_key", "check_solution_entry", "sighash_script_code>=253", "pass_over_short_signature", "solver_object_reused", "checker_object_reused", "validated_with_kept_context", "validated_with_short_unspents_list", "validated_as_another_coin_in_same_process"]
# (wire_tx_* probes are fired by the wire_tx step, which only the S-WIRE planner emits; they are declared there)

_STD = None


def std_flags():
    global _STD
    if _STD is None:
        from pycoin.satoshi import flags as F
        _STD = (F.VERIFY_P2SH | F.VERIFY_STRICTENC | F.VERIFY_DERSIG | F.VERIFY_LOW_S | F.VERIFY_NULLDUMMY
                | F.VERIFY_SIGPUSHONLY | F.VERIFY_MINIMALDATA | F.VERIFY_DISCOURAGE_UPGRADABLE_NOPS | F.VERIFY_CLEANSTACK
                | F.VERIFY_CHECKLOCKTIMEVERIFY | F.VERIFY_CHECKSEQUENCEVERIFY | F.VERIFY_WITNESS
                | F.VERIFY_DISCOURAGE_UPGRADABLE_WITNESS_PROGRAM | F.VERIFY_MINIMALIF | F.VERIFY_NULLFAIL
                | F.VERIFY_WITNESS_PUBKEYTYPE)
    return _STD


KINDS = ["p2pk", "p2pkh", "multisig", "p2sh-multisig", "p2wpkh", "p2wsh-multisig", "p2sh-p2wpkh", "p2sh-p2wsh-multisig"]
WITNESS_KINDS = {"p2wpkh", "p2wsh-multisig", "p2sh-p2wpkh", "p2sh-p2wsh-multisig"}
C = mec.SECP256K1


# ---------------------------------------------------------------------------------------------
# planning
# ---------------------------------------------------------------------------------------------

def _mn(r, kind):
    if "multisig" not in kind:
        return 1, 1
    if kind == "p2sh-multisig":
        nmax = 15  # 520-byte redeem script limit with compressed keys
    elif kind == "multisig":
        nmax = 20
    else:
        nmax = 20
    n = r.weighted([(1, 1), (2, 4), (3, 5), (r.between(1, 5), 3), (r.between(5, nmax), 1), (nmax, 0.3)])
    m = r.weighted([(1, 2), (n, 2), (max(1, n - 1), 2), (r.between(1, n), 3)])
    return m, n


def _plan_sig_len(keys, sigkind, spec, shape, signer):
    """planner side, by the models only: length of DER + hash-type byte of the SIGHASH_ALL signature `signer` makes on the
    single input described by spec (None when the model cannot tell)"""
    W = _W()
    W.sig, W.forkid, W.single = sigkind, sigkind in ("bch", "btg"), sigkind == "grs"
    W.keys = [{"d": k["d"], "compressed": k["compressed"], "P": C.mul_g(k["d"])} if i in spec["keys"] else None for i, k in enumerate(keys)]
    spk = _puzzle(W, spec)[0]
    m = {"version": shape["version"], "locktime": shape["locktime"], "outs": shape["outs"],
         "ins": [{"prev": bytes.fromhex(spec["prev"]), "idx": spec["idx"], "script": b"", "seq": spec["seq"], "witness": []}]}
    cp = _Copy(None, m, [{"value": spec["value"], "script": spk}])
    cp.specs = [spec]
    dg = _sign_digests(W, cp, 0, 1 | (sh.FORKID if W.forkid else 0))
    if not dg:
        return None
    z = next(iter(dg))
    r_, s_, _, _ = C.sign_rfc6979(keys[signer]["d"], z)
    if s_ > sv.HALF_N:
        s_ = C.n - s_
    ln = lambda v: (v.bit_length() + 8) // 8
    return 6 + ln(r_) + ln(s_) + 1


def gen_plan(rng, tier, index, config=None):
    r = rng.fork("ops")
    net = config or r.weighted([("BTC", 50), ("XTN", 8), ("LTC", 10), ("BCH", 10), ("BTG", 10), ("DOGE", 4), ("DASH", 4),
                                ("MONA", 4), ("GRS", 8)])
    sigkind = {"BCH": "bch", "BTG": "btg", "GRS": "grs"}.get(net, "btc")
    nkeys = r.between(3, 8)
    hd = None
    if r.chance(0.3):
        # the cosigners' keys are children of one BIP32 root; the planner derives them with the model
        from dsim.models import bip32 as mb32
        hd = {"seed": r.bytes(16).hex(), "paths": []}
        root = mb32.master(bytes.fromhex(hd["seed"]))

    used_d = set()

    def new_key():
        if hd is None or root is None:
            # (shapes: a secret shorter than 32 bytes, the extremes)
            while True:
                d = r.weighted([(r.between(1, C.n - 1), 8), (r.between(1, (1 << 248) - 1), 1), (r.between(1, 1 << 32), 0.5), (C.n - 1, 0.2)])
                if d not in used_d:
                    used_d.add(d)
                    return {"d": d, "compressed": True}
        from dsim.models import bip32 as mb32
        while True:
            a, b, hard = r.below(3), r.below(1000), r.chance(0.4)
            path = "%d%s/%d" % (a, "H" if hard else "", b)
            if path in hd["paths"]:
                continue
            n1 = mb32.ckd_priv(root, a + (mb32.HARD if hard else 0))
            n2 = mb32.ckd_priv(n1, b) if n1 else None
            if n2 is None:
                continue
            hd["paths"].append(path)
            return {"d": n2["k"], "compressed": True, "path": path}

    keys = [new_key() for _ in range(nkeys)]
    nin = r.weighted([(1, 5), (2, 4), (3, 2), (4, 1)])
    inputs = []
    for _ in range(nin):
        # (Bitcoin Gold kept segwit and signs witness programs with its fork-id digest too; Bitcoin Cash has no segwit)
        kinds = KINDS if sigkind in ("btc", "grs", "btg") and net not in ("DOGE", "DASH") else KINDS[:4]
        kind = r.pick(kinds)
        m, n = _mn(r, kind)
        while len(keys) < n:
            keys.append(new_key())
        ks = r.sample(range(len(keys)), n)
        if kind not in WITNESS_KINDS and hd is None and r.chance(0.2):  # (BIP32 keys are compressed by definition)
            keys[ks[0]]["compressed"] = False
        inputs.append({"kind": kind, "m": m, "keys": ks,
                       "value": r.weighted([(546, 3), (10**5, 3), (10**8, 3), (r.between(1, 21 * 10**14), 3), (21 * 10**14 + 1, 1),
                                            ((1 << 63) - 1, 0.5), (1 << 63, 0.5), ((1 << 64) - 1, 1)]),
                       "prev": r.bytes(32).hex(), "idx": r.pick([0, 1, 7, 0xFFFFFFFE]),
                       "seq": r.pick([0xFFFFFFFF, 0xFFFFFFFE, 0, r.bits(32)])})
    # keys used uncompressed must never be listed in a witness puzzle
    unc = {k for k, v in enumerate(keys) if not v["compressed"]}
    for inp in inputs:
        if inp["kind"] in WITNESS_KINDS and unc & set(inp["keys"]):
            for k in inp["keys"]:
                keys[k]["compressed"] = True
    # a P2SH redeem script is pushed by the scriptSig: it must fit in 520 bytes
    for inp in inputs:
        if inp["kind"] == "p2sh-multisig":
            size = 3 + sum(34 if keys[k]["compressed"] else 66 for k in inp["keys"])
            if size > 520:
                for k in inp["keys"]:
                    keys[k]["compressed"] = True
    nout = r.weighted([(0, 0.3), (1, 4), (2, 4), (3, 2)])
    if nout == 0 and r.chance(0.5):
        nout = 1
    outputs = [{"value": r.pick([0, 546, 10**6, r.bits(50)]), "script": r.bytes(r.pick([0, 22, 23, 25, 34])).hex()} for _ in range(nout)]
    steps = [{"op": "build", "copy": "c0", "inputs": inputs, "outputs": outputs, "version": r.pick([1, 1, 2, r.bits(32)]),
              "locktime": r.pick([0, 0, 499999999, r.bits(32)])}]
    ncopies = 1
    nsteps = r.between(4, 26 if tier == "thorough" else 16)
    hts = [1, 1, 1, 2, 3, 0x81, 0x82, 0x83, None]
    allkeys = list(range(len(keys)))
    while len(steps) < nsteps:
        op = r.weighted([("sign", 8), ("send", 3), ("validate", 5), ("tamper", 5), ("revert", 2), ("sighash", 2),
                         ("readonly", 1), ("permute", 1), ("fork", 1), ("spendables", 1), ("wire_big", 0.4),
                         ("oneshot", 1.2 if net != "GRS" else 0)])
        cp = "c%d" % r.below(ncopies)
        if op == "sign":
            sub = r.weighted([("all", 3), ("some", 5), ("one", 3), ("wrong", 1), ("none", 0.5)])
            if sub == "all":
                ks = allkeys
            elif sub == "some":
                ks = [k for k in allkeys if r.chance(0.5)]
            elif sub == "one":
                ks = [r.pick(allkeys)]
            elif sub == "wrong":
                ks = [-1 - r.below(3)]   # keys nobody listed
            else:
                ks = []
            st = {"op": "sign", "copy": cp, "keys": ks, "supply": r.weighted([("dict", 5), ("wifs", 3), ("keychain", 3),
                                                                                ("keychain_hd", 4 if hd else 0)]),
                  "hash_type": r.pick(hts), "inputs": None if r.chance(0.7) else [j for j in range(nin) if r.chance(0.6)]}
            if st["supply"] == "dict" and r.chance(0.4):
                # the cosigner keeps one Solver object for the transaction across its passes (and across whatever edits
                # happen to the transaction in between)
                st["solver"] = "reuse"
            if st["supply"] in ("dict", "wifs") and r.chance(0.12):
                # the cosigner's script table lacks the redeem / witness scripts of some inputs
                st["withhold_scripts"] = [j for j in range(nin) if r.chance(0.6)] or [0]
            if st["supply"].startswith("keychain") and r.chance(0.25):
                st["db_fault"] = r.between(1, 6)
            if st["supply"].startswith("keychain") and r.chance(0.1):
                st["clear_secrets"] = True
            if st["supply"].startswith("keychain") and r.chance(0.6):
                st["reuse_keychain"] = True
                st.pop("db_fault", None)
                if st["supply"] == "keychain_hd" and r.chance(0.4):
                    st["withhold_root"] = True
            steps.append(st)
        elif op == "send":
            steps.append({"op": "send", "copy": cp, "dst": "c%d" % ncopies,
                          "enc": r.pick(["hex", "bin", "hex+unspents", "bin+unspents", "bin+unspents"])})
            ncopies += 1
        elif op == "fork":
            steps.append({"op": "fork", "copy": cp, "dst": "c%d" % ncopies})
            ncopies += 1
        elif op == "validate":
            steps.append({"op": "validate", "copy": cp, "how": r.pick(["each", "each", "count", "check_solution", "kept_context"]),
                          "short_unspents": r.pick([None, None, None, 0, 1, 2]),
                          "abroad": r.pick([None, None, "BTC", "GRS"])})
        elif op == "tamper":
            forkcoin = sigkind in ("bch", "btg")
            kind = r.weighted([("version", 2), ("locktime", 2), ("outpoint", 2), ("sequence", 2), ("out_value", 3),
                               ("out_script", 2), ("out_add", 1), ("out_remove", 1), ("out_swap", 1), ("in_remove", 1),
                               ("in_swap", 1), ("unlock_swap", 1), ("unspent_value", 3), ("unspent_script", 2),
                               ("unspent_drop", 1), ("sig_hashtype", 3), ("sig_bit", 0 if forkcoin else 3), ("key_bit", 0 if forkcoin else 1),
                               ("script_item_bit", 0 if forkcoin else 1)])
            steps.append({"op": "tamper", "copy": cp, "kind": kind, "a": r.bits(16), "b": r.bits(16), "bit": r.below(8),
                          "bytes": r.bytes(32).hex(), "val": r.pick([1, -1, 1000, r.between(1, 10**6)])})
            if r.chance(0.8):
                steps.append({"op": "validate", "copy": cp, "how": "each"})
        elif op == "revert":
            steps.append({"op": "revert", "copy": cp})
            steps.append({"op": "validate", "copy": cp, "how": "each"})
        elif op == "sighash":
            steps.append({"op": "sighash", "copy": cp, "idx": r.below(nin + 1), "script": r.pick(["puzzle", "codesep", "random", "sized", "truncated"]),
                          "seed": r.bits(32), "all256": r.chance(0.2), "ht": r.bits(8), "checker": r.pick(["fresh", "reuse"]),
                          "len": r.weighted([(0, 1), (1, 1), (75, 1), (76, 1), (252, 2), (253, 3), (254, 2), (255, 3), (256, 2), (257, 1), (520, 1),
                                             (521, 1), (0xFFFF, 1), (0x10000, 1), (r.between(0, 700), 4)])})
        elif op == "readonly":
            steps.append({"op": "readonly", "copy": cp})
        elif op == "wire_big":
            steps.append({"op": "wire_big", "what": r.pick(["inputs", "outputs", "out_script", "in_script", "witness_item", "witness_count"]),
                          "n": r.pick([0xFC, 0xFD, 0xFE, 0xFFFF, 0x10000, 0x10001, 300]), "seed": r.bits(32), "value": r.pick([0, 1, (1 << 64) - 1, r.bits(64)])})
        elif op == "spendables":
            heights = [0, 1, 0xFC, 0xFD, 500000, 0xFFFF, 0x10000, 0x02000000, 0x02000001, (1 << 31) - 1, (1 << 32) - 1]
            steps.append({"op": "spendables", "copy": cp, "form": r.pick(["text", "dict", "bin"]), "bia": r.pick([0, 1, 500000, r.pick(heights)]),
                          "spent": r.chance(0.2), "bis": r.pick([0, 0, 600000, r.pick(heights)])})
        elif op == "oneshot":
            # the one-call path: create_signed_tx from spendables, payables and WIFs
            ks = allkeys if r.chance(0.6) else [k for k in allkeys if r.chance(0.6)]
            steps.append({"op": "oneshot", "dst": "c%d" % ncopies, "keys": ks, "pay": [r.below(len(keys)) for _ in range(r.between(1, 3))],
                          "fee": r.pick([0, 0, 1, 500]), "version": r.pick([1, 2]), "locktime": r.pick([0, 0, 400000]),
                          "form": r.pick(["obj", "text", "dict"])})
            ncopies += 1
        elif op == "permute":
            passes = []
            for _ in range(r.between(2, 4)):
                passes.append({"keys": [k for k in allkeys if r.chance(0.5)] or [r.pick(allkeys)], "hash_type": r.pick(hts)})
            perm = list(range(len(passes)))
            r.shuffle(perm)
            steps.append({"op": "permute", "passes": passes, "perm": perm})
    steps.append({"op": "validate", "copy": "c0", "how": "each"})
    # scripted scenarios that put the shared transaction into the in-flight states random histories rarely reach
    scen = r.weighted([(None, 66), ("stale_front", 8), ("commit_sweep", 9), ("short_sig", 6), ("sighash_churn", 6),
                       ("kc_lock_cycle", 5 if hd else 0)]) if config is None else None
    ms = [j for j, inp in enumerate(inputs) if "multisig" in inp["kind"] and inp["m"] >= 2 and len(inp["keys"]) <= 6]
    if scen == "stale_front" and ms and outputs:
        # a later-listed key signs without committing to the outputs, an earlier-listed key signs ALL, an output changes
        # (the earlier signature goes stale, the later one stays valid), then further passes run
        j = r.pick(ms)
        ks = inputs[j]["keys"]
        late, early = ks[-1], ks[0]
        others = [k for k in ks[1:-1]]
        steps = [steps[0],
                 {"op": "sign", "copy": "c0", "keys": [late], "supply": "dict", "hash_type": r.pick([2, 0x82, 3 if j < len(outputs) else 2]), "inputs": None},
                 {"op": "sign", "copy": "c0", "keys": [early] + others[: inputs[j]["m"] - 2], "supply": r.pick(["dict", "wifs"]), "hash_type": 1, "inputs": None},
                 {"op": "validate", "copy": "c0", "how": "each"},
                 {"op": "tamper", "copy": "c0", "kind": r.pick(["out_value", "out_script", "out_add"]), "a": r.bits(16), "b": r.bits(16), "bit": r.below(8),
                  "bytes": r.bytes(32).hex(), "val": 1 + (r.bits(8) | 1) * (0 if j < len(outputs) and False else 1)},
                 {"op": "validate", "copy": "c0", "how": "each"},
                 {"op": "sign", "copy": "c0", "keys": r.pick([[early], [early] + others, others or [early]]), "supply": "dict", "hash_type": r.pick([1, 1, 0x81]), "inputs": None},
                 {"op": "validate", "copy": "c0", "how": "each"},
                 {"op": "sign", "copy": "c0", "keys": list(ks), "supply": "dict", "hash_type": 1, "inputs": None},
                 {"op": "validate", "copy": "c0", "how": "each"}]
    elif scen == "commit_sweep":
        # everything signed, then every kind of field change in turn, each followed by validation and a revert
        vhow = r.pick(["each", "kept_context", "kept_context", "check_solution"])
        steps = [steps[0], {"op": "sign", "copy": "c0", "keys": allkeys, "supply": "dict", "hash_type": r.pick(hts), "inputs": None},
                 {"op": "validate", "copy": "c0", "how": vhow}]
        for kind in ["version", "locktime", "outpoint", "sequence", "out_value", "out_script", "out_add", "out_remove", "out_swap",
                     "unspent_value", "unspent_script", "sig_hashtype"]:
            steps.append({"op": "tamper", "copy": "c0", "kind": kind, "a": r.bits(16), "b": r.bits(16), "bit": r.below(8),
                          "bytes": r.bytes(32).hex(), "val": r.pick([1, -1, 1000])})
            steps.append({"op": "validate", "copy": "c0", "how": vhow})
            steps.append({"op": "revert", "copy": "c0"})
            if r.chance(0.7):
                steps.append({"op": "validate", "copy": "c0", "how": vhow})   # (back in the signed state: valid again)
        steps.append({"op": "validate", "copy": "c0", "how": vhow})
    elif scen == "sighash_churn":
        # one checker object kept while outputs come and go and other fields change, digests asked in between
        resign = r.chance(0.6)
        steps = [steps[0]]
        if resign:
            # ... and one Solver object kept too: everything is signed first, and signed again after the churn
            steps.append({"op": "sign", "copy": "c0", "keys": allkeys, "supply": "dict", "hash_type": r.pick([None, 1, 0x81, 3]), "inputs": None,
                          "solver": "reuse"})
        for _ in range(r.between(5, 12) if not resign else r.between(1, 5)):
            kind = r.weighted([("out_add", 3), ("out_remove", 3), ("out_value", 2), ("out_script", 1), ("sequence", 1), ("outpoint", 1),
                               ("out_swap", 1)])
            steps.append({"op": "tamper", "copy": "c0", "kind": kind, "a": r.bits(16), "b": r.bits(16), "bit": r.below(8),
                          "bytes": r.bytes(32).hex(), "val": r.pick([1, -1, 1000])})
            if r.chance(0.2):
                steps.append({"op": "revert", "copy": "c0"})
            steps.append({"op": "sighash", "copy": "c0", "idx": r.below(nin + 1), "script": r.pick(["puzzle", "puzzle", "codesep"]),
                          "seed": r.bits(32), "all256": False, "ht": r.pick([1, 2, 3, 3, 0x81, 0x83, 0x43, 0xC3]), "checker": "reuse", "len": 0})
        if resign:
            steps.append({"op": "sign", "copy": "c0", "keys": allkeys, "supply": "dict", "hash_type": r.pick([None, 1, 0x81]), "inputs": None,
                          "solver": "reuse"})
            steps.append({"op": "validate", "copy": "c0", "how": "each"})
    elif scen == "kc_lock_cycle" and hd:
        # one long-lived keychain of hierarchical keys: used, locked (secrets cleared), unlocked again, used again
        hk = [k for k in allkeys if keys[k].get("path")]
        some = [k for k in hk if r.chance(0.7)] or hk[:1]
        steps = [steps[0],
                 {"op": "sign", "copy": "c0", "keys": some, "supply": "keychain_hd", "hash_type": None, "inputs": None, "reuse_keychain": True},
                 {"op": "validate", "copy": "c0", "how": "each"},
                 {"op": "tamper", "copy": "c0", "kind": r.pick(["locktime", "out_value", "version"]), "a": r.bits(16), "b": r.bits(16),
                  "bit": r.below(8), "bytes": r.bytes(32).hex(), "val": 1},
                 {"op": "sign", "copy": "c0", "keys": [], "supply": "keychain_hd", "hash_type": None, "inputs": None, "reuse_keychain": True,
                  "clear_secrets": True},
                 {"op": "sign", "copy": "c0", "keys": r.pick([some, hk]), "supply": "keychain_hd", "hash_type": None, "inputs": None,
                  "reuse_keychain": True},
                 {"op": "validate", "copy": "c0", "how": "each"}]
    elif scen == "short_sig" and hd is None:
        # one key at a time over a signature of unusual length: the planner grinds an output amount until the model's
        # (deterministic, low-S) signature by the first cosigner has a 31-byte r or s, i.e. DER + hash type <= 70 bytes
        witness_ok = sigkind in ("btc", "grs", "btg") and net not in ("DOGE", "DASH")
        kind = r.pick(["p2wsh-multisig", "p2sh-p2wsh-multisig", "p2wsh-multisig", "multisig", "p2sh-multisig"] if witness_ok
                      else ["multisig", "p2sh-multisig"])
        ks = r.sample(range(len(keys)), 3)
        for k in ks:
            keys[k]["compressed"] = True
        mm = r.pick([2, 2, 3])
        spec = {"kind": kind, "m": mm, "keys": ks, "value": r.pick([10**6, 5 * 10**8, 123456789]), "prev": r.bytes(32).hex(), "idx": r.pick([0, 1]),
                "seq": 0xFFFFFFFF}
        first = r.pick(ks)
        out_script = r.bytes(22).hex()
        base = r.between(1000, 900000)
        found = None
        for v in range(base, base + 500):
            n_ = _plan_sig_len(keys, sigkind, spec, {"version": 1, "locktime": 0, "outs": [{"value": v, "script": bytes.fromhex(out_script)}]}, first)
            if n_ is not None and n_ <= 70:
                found = v
                break
        v = found if found is not None else base
        rest = [k for k in ks if k != first]
        r.shuffle(rest)
        inputs = [spec]
        steps = [{"op": "build", "copy": "c0", "inputs": inputs, "outputs": [{"value": v, "script": out_script}], "version": 1, "locktime": 0},
                 {"op": "sign", "copy": "c0", "keys": [first], "supply": r.pick(["dict", "wifs"]), "hash_type": None, "inputs": None},
                 {"op": "validate", "copy": "c0", "how": "each"}]
        if r.chance(0.4):
            steps.append({"op": "send", "copy": "c0", "dst": "c1", "enc": r.pick(["hex", "bin+unspents"])})
        tgt = "c1" if len(steps) == 4 else "c0"
        for k in rest[: mm - 1] + rest[mm - 1:][: r.below(2)]:
            steps.append({"op": "sign", "copy": tgt, "keys": [k], "supply": r.pick(["dict", "wifs", "keychain"]), "hash_type": None, "inputs": None})
            steps.append({"op": "validate", "copy": tgt, "how": "each"})
    backend = "pure" if (config is None and sigkind == "btc" and hd is None and r.chance(0.03)) else "native"
    if net == "GRS":
        # the GRS network object needs the groestlcoin_hash package (absent here); its Tx / Solver / SolutionChecker
        # classes do not: the world drives them directly and takes key utilities from the BTC network object
        for st in steps:
            if st.get("op") == "sign" and st.get("supply") == "keychain_hd":
                st["supply"] = "keychain"
    if backend == "pure":
        # the pure-Python generator costs ~50 ms per multiplication: keep the history short and dictionary-supplied
        steps = [st for st in steps if st.get("op") in ("build", "sign", "validate", "tamper", "revert")][:7]
        for st in steps:
            if st.get("op") == "sign":
                st["supply"] = "dict"
                st.pop("db_fault", None)
                st.pop("clear_secrets", None)
    return {"world": NAME, "config": {"name": net + ("-hd" if hd else "") + ("-pure" if backend == "pure" else ""), "network": net,
                                      "sig": sigkind, "keys": keys, "hd": hd, "backend": backend, "scenario": scen}, "steps": steps}


# ---------------------------------------------------------------------------------------------
# execution
# ---------------------------------------------------------------------------------------------

class _W(object):
    pass


class _Copy(object):
    def __init__(self, obj, model, unspents):
        self.obj = obj            # pycoin Tx (long-lived, mutated in place)
        self.m = model            # model tx dict (kept equal to the object's fields)
        self.u = unspents         # list of {"value","script"} or None, per input (recorded spent outputs)
        self.history = []         # snapshots for revert: (model, unspents)
        self.clean = True         # no unlocking-data tampering so far (C05 pass invariants apply)
        self.ht_only = True       # the only unlocking-data tampering so far changed hash-type bytes of signatures
        self.specs = []           # puzzle spec per input (what the coordinator built), kept aligned with the inputs
        self.signed_passes = 0


class _Recorder(object):
    """wraps the generator the VM hands to checksig / the solver: records the integer that crosses
    the VM -> ECDSA seam"""

    def __init__(self, real):
        object.__setattr__(self, "_real", real)
        object.__setattr__(self, "verified", [])
        object.__setattr__(self, "signed", [])

    def __getattr__(self, k):
        return getattr(self._real, k)

    def verify(self, public_pair, val, sig):
        self.verified.append(val)
        return self._real.verify(public_pair, val, sig)

    def sign(self, secret_exponent, val, *a, **kw):
        self.signed.append(val)
        return self._real.sign(secret_exponent, val, *a, **kw)

    def __mul__(self, other):
        return self._real * other

    def __rmul__(self, other):
        return other * self._real


def _sec(W, k):
    key = W.keys[k]
    P = key["P"]
    if key["compressed"]:
        return bytes([2 + (P[1] & 1)]) + P[0].to_bytes(32, "big")
    return b"\x04" + P[0].to_bytes(32, "big") + P[1].to_bytes(32, "big")


def _puzzle(W, spec):
    """-> (scriptPubKey, redeem script or None, witness script or None)"""
    kind = spec["kind"]
    secs = [_sec(W, k) for k in spec["keys"]]
    if kind == "p2pk":
        return sv.p2pk(secs[0]), None, None
    if kind == "p2pkh":
        return sv.p2pkh(sv.hash160(secs[0])), None, None
    if kind == "multisig":
        return sv.multisig_script(spec["m"], secs), None, None
    if kind == "p2sh-multisig":
        red = sv.multisig_script(spec["m"], secs)
        return sv.p2sh(red), red, None
    if kind == "p2wpkh":
        return sv.p2wpkh(sv.hash160(secs[0])), None, None
    if kind == "p2wsh-multisig":
        ws = sv.multisig_script(spec["m"], secs)
        return sv.p2wsh(ws), None, ws
    if kind == "p2sh-p2wpkh":
        red = sv.p2wpkh(sv.hash160(secs[0]))
        return sv.p2sh(red), red, None
    if kind == "p2sh-p2wsh-multisig":
        ws = sv.multisig_script(spec["m"], secs)
        red = sv.p2wsh(ws)
        return sv.p2sh(red), red, ws
    raise HarnessError("unknown kind " + kind)


def execute(plan, ctx):
    from pycoin.networks.registry import network_for_netcode
    from pycoin.coins.bitcoin.VM import BitcoinVM
    cfg = plan["config"]
    W = _W()
    if cfg["network"] == "GRS":
        from pycoin.coins.groestlcoin.Tx import Tx as GrsTx
        W.net = network_for_netcode("BTC")
        W.Tx = GrsTx
        ctx.probe("coin_grs_classes_direct")
    else:
        W.net = network_for_netcode(cfg["network"])
        W.Tx = W.net.tx
    W.sig = cfg["sig"]
    W.cfg_network = cfg["network"]
    W.forkid = cfg["sig"] in ("bch", "btg")
    W.single = cfg["sig"] == "grs"
    if W.single:
        W.txid = lambda m: hashlib.sha256(mw.enc_tx(m, witness=False)).digest()
        W.wtxid = lambda m: hashlib.sha256(mw.enc_tx(m, witness=True)).digest()
    else:
        W.txid, W.wtxid = mw.txid, mw.wtxid
    W.coin = {"sig": cfg["sig"]}
    W.keys = []
    for k in cfg["keys"]:
        W.keys.append({"d": k["d"], "compressed": k["compressed"], "P": C.mul_g(k["d"]), "path": k.get("path")})
    W.extra = {}
    W.solvers = {}
    W.checkers = {}
    W.kept_ctx = {}
    W.copies = {}
    W.scripts = []
    W.V = sv.Validator(W.coin)
    W.Vlax = sv.Validator(W.coin, strict=False)
    if cfg["network"] == "BCH":
        ctx.probe("coin_bch")
    elif cfg["network"] == "BTG":
        ctx.probe("coin_btg")
    elif cfg["network"] == "LTC":
        ctx.probe("coin_ltc")
    elif cfg["network"] not in ("BTC", "XTN", "GRS"):
        ctx.probe("coin_other")
    # the VM -> ECDSA seam
    real_gen = BitcoinVM.generator_for_signature_type(1)
    W.hd = cfg.get("hd")
    if cfg.get("backend") == "pure":
        from dsim.seams import backends
        cls, _ = backends.replica_class("pure")
        real_gen = cls(C.p, C.a, C.b, C.G, C.n, entropy_f=backends.entropy_f_for(b"\x07" * 32))
        ctx.probe("backend_pure_python")
    W.rec = _Recorder(real_gen)
    saved = BitcoinVM.__dict__["generator_for_signature_type"]
    BitcoinVM.generator_for_signature_type = classmethod(lambda cls, signature_type: W.rec)
    try:
        for i, st in enumerate(plan["steps"]):
            ctx.step = i
            ctx.steps_run += 1
            f = _OPS.get(st.get("op"))
            if f is not None:
                f(ctx, W, st)
    finally:
        BitcoinVM.generator_for_signature_type = saved


# -- helpers ---------------------------------------------------------------------------------------

def _mk_obj(W, m, unspents):
    Tx = W.Tx
    ins = []
    for i in m["ins"]:
        ti = Tx.TxIn(i["prev"], i["idx"], i["script"], i["seq"])
        if i["witness"]:
            ti.witness = list(i["witness"])
        ins.append(ti)
    outs = [Tx.TxOut(o["value"], o["script"]) for o in m["outs"]]
    tx = Tx(m["version"], ins, outs, m["locktime"])
    tx.set_unspents([None if u is None else Tx.TxOut(u["value"], u["script"]) for u in unspents])
    return tx


def _read_obj(tx):
    m = mw.tx_from_pycoin(tx)
    u = []
    for x in tx.unspents:
        u.append(None if x is None else {"value": x.coin_value, "script": bytes(x.script)})
    return m, u


def _write_obj(W, cp):
    """make the long-lived pycoin object carry the model's fields (in place)"""
    tx, m = cp.obj, cp.m
    Tx = W.Tx
    tx.version = m["version"]
    tx.lock_time = m["locktime"]
    if len(tx.txs_in) != len(m["ins"]):
        tx.txs_in = [Tx.TxIn(i["prev"], i["idx"], i["script"], i["seq"]) for i in m["ins"]]
    for ti, i in zip(tx.txs_in, m["ins"]):
        ti.previous_hash = i["prev"]
        ti.previous_index = i["idx"]
        ti.script = i["script"]
        ti.sequence = i["seq"]
        ti.witness = list(i["witness"])
    if len(tx.txs_out) != len(m["outs"]):
        tx.txs_out = [Tx.TxOut(o["value"], o["script"]) for o in m["outs"]]
    for to, o in zip(tx.txs_out, m["outs"]):
        to.coin_value = o["value"]
        to.script = o["script"]
    # the recorded spent outputs are edited in place where the objects exist (a mutate / re-validate history on the
    # same objects), replaced only when an entry appears, disappears or the list changes length
    if len(tx.unspents) == len(cp.u) and all((x is None) == (u is None) for x, u in zip(tx.unspents, cp.u)):
        for x, u in zip(tx.unspents, cp.u):
            if u is not None:
                x.coin_value = u["value"]
                x.script = u["script"]
    else:
        tx.unspents = [None if u is None else Tx.TxOut(u["value"], u["script"]) for u in cp.u]


def _verdicts(W, cp):
    V = W.V
    return [V.input(cp.m, j, cp.u[j] if j < len(cp.u) else None) for j in range(len(cp.m["ins"]))]


def _pyc_std(W, ctx, tx, j, flags):
    W.rec.verified.clear()
    try:
        return bool(tx.is_solution_ok(j, flags=flags))
    except Exception as e:
        return ("raised", type(e).__name__, str(e)[:160])


def _expected_digests(W, cp, j):
    """every digest that may legitimately cross the seam while input j is validated: one per hash-type
    byte present at the end of any item of the unlocking data, under the script code / digest
    algorithm the puzzle dictates"""
    if j >= len(cp.u) or cp.u[j] is None:
        return None
    u = cp.u[j]
    kind, par = sv.classify(u["script"])
    items = sv.parse_push_only(cp.m["ins"][j]["script"])
    wit = cp.m["ins"][j]["witness"]
    if kind is None or isinstance(items, str):
        return None
    witness = False
    sc = u["script"]
    if kind == "p2sh":
        if not items:
            return set()
        red = items[-1]
        k2, p2 = sv.classify(red)
        if k2 in ("p2wpkh", "p2wsh"):
            kind, par = k2, p2
        else:
            sc = red
            items = items[:-1]
    if kind == "p2wpkh":
        witness, sc, cand = True, sv.p2pkh(par), list(wit)
    elif kind == "p2wsh":
        if not wit:
            return set()
        witness, sc, cand = True, wit[-1], list(wit[:-1])
    else:
        cand = list(items)
    out = set()
    for it in cand:
        if len(it) < 9:
            continue
        ht = it[-1]
        if W.forkid:
            if ht & sh.FORKID:
                out.add(sh.bip143(cp.m, j, sc, u["value"], ht, forkid=79 if W.sig == "btg" else None))
        elif witness:
            out.add(sh.bip143(cp.m, j, sc, u["value"], ht, single_sha=W.single))
        else:
            s2 = sc
            for other in cand:
                s2 = sh.find_and_delete(s2, other) if len(other) >= 9 else s2
            out.add(sh.legacy(cp.m, j, s2, ht, single_sha=W.single))
            out.add(sh.legacy(cp.m, j, sh.find_and_delete(sc, it), ht, single_sha=W.single))
    return out


def _check_seam(ctx, W, cp, j):
    exp = _expected_digests(W, cp, j)
    if exp is None:
        return
    ctx.probe("digest_at_seam_checked")
    for val in W.rec.verified:
        if val not in exp:
            ctx.violate("C04", "digest-at-ecdsa-seam", {"input": j, "got": "%064x" % val, "expected_any_of": ["%064x" % e for e in sorted(exp)][:4],
                                                        "kind": sv.classify(cp.u[j]["script"])[0]})
            break


# -- steps -----------------------------------------------------------------------------------------

def _op_build(ctx, W, st):
    m = {"version": st["version"], "locktime": st["locktime"], "ins": [], "outs": []}
    unspents = []
    W.scripts = []
    for spec in st["inputs"]:
        spk, red, ws = _puzzle(W, spec)
        ctx.probe("kind:" + spec["kind"])
        if len(spec["keys"]) >= 16:
            ctx.probe("n>=16")
        if spec["m"] >= 10:
            ctx.probe("m>=10")
        if any(not W.keys[k]["compressed"] for k in spec["keys"]):
            ctx.probe("uncompressed_key")
        for s in (red, ws):
            if s is not None:
                W.scripts.append(s)
        m["ins"].append({"prev": bytes.fromhex(spec["prev"]), "idx": spec["idx"], "script": b"", "seq": spec["seq"], "witness": []})
        unspents.append({"value": spec["value"], "script": spk})
    for o in st["outputs"]:
        m["outs"].append({"value": o["value"], "script": bytes.fromhex(o["script"])})
    try:
        tx = _mk_obj(W, m, unspents)
    except Exception as e:
        ctx.violate("C07", "tx-construction-raised", {"exc": type(e).__name__, "msg": str(e)[:200]})
        raise Abort()
    W.copies[st["copy"]] = _Copy(tx, m, unspents)
    W.copies[st["copy"]].specs = [dict(x) for x in st["inputs"]]
    W.built0 = ([dict(x) for x in st["inputs"]], copy.deepcopy(m["ins"]), copy.deepcopy(unspents))
    ctx.obs("build", W.txid(m)[::-1].hex())


def _key_material(W, ks):
    """secret exponents for plan key ids (negative ids: keys nobody listed)"""
    out = []
    for k in ks:
        if k >= 0:
            if k < len(W.keys):
                out.append(W.keys[k]["d"])
        else:
            out.append((0x1234567 * (-k) * 0x9E3779B97F4A7C15 + 99) % C.n or 1)
    return out


def _new_sigs(before_items, after_items):
    b = list(before_items)
    out = []
    for it in after_items:
        if it in b:
            b.remove(it)
        else:
            out.append(it)
    return out


def _unlock_items(m, j):
    items = sv.parse_push_only(m["ins"][j]["script"])
    if isinstance(items, str):
        items = []
    return list(items) + list(m["ins"][j]["witness"])


PLACEHOLDER = bytes.fromhex("3045022100fffffffffffffffffffffffffffffffebaaedce6af48a03bbfd25e8cd036414002207"
                            "fffffffffffffffffffffffffffffff5d576e7357a4501ddfe92f46681b20a001")


def _do_sign(ctx, W, tx, st, secrets, scripts=None):
    """run one signing pass on pycoin object tx; returns None or ('raised', ...)"""
    import sqlite3
    from pycoin.solve.utils import build_hash160_lookup, build_p2sh_lookup
    kwargs = {}
    if st.get("hash_type") is not None:
        kwargs["hash_type"] = st["hash_type"]
    if st.get("inputs") is not None:
        kwargs["tx_in_idx_set"] = set(j for j in st["inputs"] if j < len(tx.txs_in))
    supply = st.get("supply", "dict")
    W.rec.signed.clear()
    if scripts is None:
        scripts = W.scripts
    try:
        if supply == "dict":
            ctx.probe("supply_dict")
            lookup = build_hash160_lookup(secrets, [W.rec])
            if st.get("solver") == "reuse":
                ent = W.solvers.get(id(tx))
                if ent is None or ent[0] is not tx:
                    ent = W.solvers[id(tx)] = (tx, tx.Solver(tx))
                else:
                    ctx.probe("solver_object_reused")
                ent[1].sign(lookup, p2sh_lookup=build_p2sh_lookup(scripts), **kwargs)
            else:
                tx.sign(lookup, p2sh_lookup=build_p2sh_lookup(scripts), **kwargs)
        elif supply == "wifs":
            ctx.probe("supply_wifs")
            wifs = []
            for d in secrets:
                comp = True
                for key in W.keys:
                    if key["d"] == d:
                        comp = key["compressed"]
                wifs.append(W.net.keys.private(d, is_compressed=comp).wif())
            W.net.tx_utils.sign_tx(tx, wifs=wifs, p2sh_lookup=build_p2sh_lookup(scripts), **kwargs)
        else:
            reuse = bool(st.get("reuse_keychain"))
            if reuse and getattr(W, "kc", None) is not None:
                conn, kc = W.kc
                ctx.probe("keychain_reused_across_passes")
            else:
                conn = SimConnection()
                kc = W.net.keychain(conn)
                if reuse:
                    W.kc = (conn, kc)
            if supply == "keychain_hd" and W.hd:
                # a keychain of hierarchical keys: the database holds key paths, the root is the only secret
                ctx.probe("supply_keychain_hd")
                root = W.net.keys.bip32_seed(bytes.fromhex(W.hd["seed"]))
                wanted = set(secrets)
                paths = [k["path"] for i_, k in enumerate(W.keys) if k.get("path") and (k["d"] in wanted or i_ in (st.get("hd_register") or []))]
                kc.add_key_paths(root, paths)
                kc.commit()
                if not st.get("withhold_root"):
                    kc.add_secret(root)
                loose = [d for d in secrets if not any(k["d"] == d and k.get("path") for k in W.keys)]
                kc.add_secrets([W.net.keys.private(d) for d in loose])
            else:
                ctx.probe("supply_keychain")
                kc.add_secrets([W.net.keys.private(d) for d in secrets])
            kc.add_p2s_scripts(W.scripts)
            if st.get("clear_secrets"):
                kc.clear_secrets()
                ctx.fault("db_secrets_cleared")
            if st.get("db_fault"):
                conn.arm(st["db_fault"])
            try:
                tx.sign(kc, p2sh_lookup=kc, **kwargs)
            finally:
                if conn.faults_fired:
                    ctx.fault("db_statement_error", conn.faults_fired)
                conn.disarm()
    except sqlite3.OperationalError as e:
        return ("db-error", str(e)[:80])
    except Exception as e:
        return ("raised", type(e).__name__, str(e)[:200])
    return None


def _op_sign(ctx, W, st):
    cp = W.copies.get(st["copy"])
    if cp is None:
        return
    hd_pass = str(st.get("supply")) == "keychain_hd" and W.hd
    reuse = bool(st.get("reuse_keychain")) and str(st.get("supply", "")).startswith("keychain")
    is_hd = lambda k: 0 <= k < len(W.keys) and bool(W.keys[k].get("path"))
    if reuse and st.get("clear_secrets"):
        W.kc_keys, W.kc_root_added = set(), False
    if hd_pass:
        # the key paths of every hierarchical key asked for are registered in the database, root unlocked or not
        registered = (getattr(W, "kc_registered", set()) if reuse else set()) | set(k for k in st["keys"] if is_hd(k))
        root_known = (reuse and getattr(W, "kc_root_added", False)) or not st.get("withhold_root")
        st = dict(st, hd_register=sorted(registered))
        if reuse:
            W.kc_registered = registered
            W.kc_root_added = root_known and not st.get("clear_secrets")
        if root_known:
            # every registered path resolves once the root is unlocked
            st["keys"] = sorted(set(st["keys"]) | registered)
        else:
            # paths registered, root still locked: no hierarchical key is available in this pass
            st["keys"] = [k for k in st["keys"] if not is_hd(k)]
    if reuse:
        # a long-lived keychain accumulates the secrets of every pass that used it
        W.kc_keys = getattr(W, "kc_keys", set()) | set(k for k in st["keys"] if k >= 0 and (not is_hd(k) or not hd_pass or getattr(W, "kc_root_added", False) or not st.get("withhold_root")))
        if st.get("clear_secrets"):
            W.kc_keys = set()
        st = dict(st, keys=sorted(set(k for k in st["keys"] if k >= 0) | W.kc_keys) + [k for k in st["keys"] if k < 0])
    secrets = _key_material(W, st["keys"])
    if any(k < 0 for k in st["keys"]):
        ctx.fault("wrong_key_pass")
    before_m, before_u = copy.deepcopy(cp.m), copy.deepcopy(cp.u)
    for j_ in range(len(before_m["ins"])):
        if any(8 < len(it) <= 70 and it[0] == 0x30 and it != PLACEHOLDER for it in _unlock_items(before_m, j_)):
            ctx.probe("pass_over_short_signature")
            ctx.nontrivial = True
    before_v = _verdicts(W, cp)
    snap_before = cp.obj.as_bin(include_unspents=True) if not cp.obj.missing_unspents() else None
    faulted = bool(st.get("db_fault") or st.get("clear_secrets")) and str(st.get("supply")).startswith("keychain")
    withheld = set()
    scripts = None
    if st.get("withhold_scripts") and str(st.get("supply")) in ("dict", "wifs"):
        need = {}
        for j_, spec_ in enumerate(cp.specs):
            _, red_, ws_ = _puzzle(W, spec_)
            need[j_] = [x for x in (red_, ws_) if x is not None]
        gone = set(x for j_ in st["withhold_scripts"] if j_ in need for x in need[j_])
        withheld = set(j_ for j_, xs in need.items() if xs and any(x in gone for x in xs))
        if withheld:
            scripts = [x for x in W.scripts if x not in gone]
            ctx.fault("scripts_withheld")
            ctx.nontrivial = True
    res = _do_sign(ctx, W, cp.obj, st, secrets, scripts)
    m2, u2 = _read_obj(cp.obj)
    ht_req = st.get("hash_type") or 1
    if ht_req != 1:
        ctx.probe("hash_type_non_all")
        ctx.nontrivial = True
    if ht_req & 0x80:
        ctx.probe("anyonecanpay")
    if res is not None and res[0] == "raised":
        if any(u is None for u in before_u):
            res = None  # check_unspents refuses to sign with a missing spent output: nothing stated
        elif not faulted and cp.clean:
            # (with garbage unlocking data left by the tamperer nothing is promised about the signer)
            ctx.violate("C05", "sign-raised", {"exc": res[1], "msg": res[2], "supply": st.get("supply")})
    cp.m, cp.u = m2, u2
    cp.signed_passes += 1
    pass_key = (tuple(sorted(st["keys"])), ht_req, None if st.get("inputs") is None else tuple(st["inputs"]))
    if pass_key in getattr(cp, "passes_seen", set()):
        ctx.fault("duplicate_pass")
    cp.passes_seen = getattr(cp, "passes_seen", set()) | {pass_key}
    if cp.signed_passes >= 2:
        ctx.nontrivial = True
    after_v = _verdicts(W, cp)
    ctx.obs("sign", st["copy"], st.get("supply"), st["keys"], ht_req, [v.valid for v in after_v])
    # (iii) nothing else changed
    for f in ("version", "locktime"):
        if m2[f] != before_m[f]:
            ctx.violate("C05", "signing-changed-other-field", {"field": f})
    if m2["outs"] != before_m["outs"] or u2 != before_u or len(m2["ins"]) != len(before_m["ins"]):
        ctx.violate("C05", "signing-changed-other-field", {"field": "outputs/unspents/input count"})
        return
    if any(u is None for u in before_u):
        # signing refuses to start when a spent output is unknown; the only claim is that nothing was touched
        if m2 != before_m:
            ctx.violate("C05", "signing-changed-other-field", {"field": "anything, although a spent output was unknown"})
        return
    asked = set(range(len(m2["ins"]))) if st.get("inputs") is None else set(j for j in st["inputs"] if j < len(m2["ins"]))
    supplied = set(k for k in st["keys"] if k >= 0)
    # digests that crossed the seam while signing: each must be the model digest for some asked input
    if W.rec.signed and all(u is not None for u in before_u):
        legit = set()
        ht_eff = ht_req | (sh.FORKID if W.forkid else 0)
        known = True
        for j in asked:
            # the transaction the signer saw is the one before this pass, but other inputs' unlocking data is
            # never committed, so the digest can be computed on the current model
            dj = _sign_digests(W, cp, j, ht_eff)
            if dj is None:
                known = False
            else:
                legit |= dj
        for val in (W.rec.signed if known else []):
            if val not in legit:
                ctx.violate("C04", "digest-signed-at-ecdsa-seam", {"got": "%064x" % val, "hash_type": ht_eff})
                break
    for j in range(len(m2["ins"])):
        a, b = before_m["ins"][j], m2["ins"][j]
        if (a["prev"], a["idx"], a["seq"]) != (b["prev"], b["idx"], b["seq"]):
            ctx.violate("C05", "signing-changed-other-field", {"field": "outpoint/sequence", "input": j})
            continue
        changed = (a["script"], a["witness"]) != (b["script"], b["witness"])
        bv, av = before_v[j], after_v[j]
        if bv.valid is None or av.valid is None:
            continue
        if changed and j not in asked:
            ctx.violate("C05", "signing-touched-unasked-input", {"input": j})
            continue
        if changed and bv.valid and cp.clean:
            ctx.violate("C05", "signing-rewrote-valid-input", {"input": j})
            continue
        if not cp.clean or j not in asked or bv.valid or faulted and res is not None:
            if faulted and changed and not av.valid:
                # a faulted key store may leave placeholders; it may not corrupt: other fields were checked above
                pass
            continue
        spec = cp.specs[j] if j < len(cp.specs) else None
        if spec is None or j >= len(before_u) or before_u[j] is None:
            continue
        if before_u[j]["script"] != _puzzle(W, spec)[0]:
            continue  # the recorded spent script was tampered with: the keys no longer match the puzzle
        listed = list(spec["keys"])
        K = set(i for i, k in enumerate(listed) if k in supplied)
        if j in withheld:
            K = set()   # without the redeem / witness script the keys are of no use for this input
        S_old, S_new = set(bv.signed), set(av.signed)
        m = spec["m"]
        if faulted:
            # may sign fewer, never more than the keys brought, never lose a signature
            if not S_old <= S_new or not (S_new - S_old) <= K:
                ctx.violate("C05", "faulted-store-corrupted-signatures", {"input": j, "before": sorted(S_old), "after": sorted(S_new)})
            continue
        if not S_old <= S_new:
            ctx.violate("C05", "signing-lost-signature", {"input": j, "before": sorted(S_old), "after": sorted(S_new), "kind": spec["kind"]})
        if not (S_new - S_old) <= K:
            ctx.violate("C05", "signature-by-unsupplied-key", {"input": j, "new": sorted(S_new - S_old), "supplied": sorted(K)})
        want = min(m, len(S_old | K))
        if len(S_new) != want:
            ctx.violate("C05", "wrong-number-of-signatures", {"input": j, "kind": spec["kind"], "m": m, "n": len(listed), "before": sorted(S_old),
                                                              "supplied": sorted(K), "after": sorted(S_new), "why": av.why})
        if av.valid != (len(S_new) >= m):
            ctx.violate("C05", "valid-iff-m-signatures", {"input": j, "kind": spec["kind"], "m": m, "signed": sorted(S_new), "valid": av.valid,
                                                          "why": av.why})
        if S_old and len(S_new) >= m and len(S_old) < m:
            ctx.probe("partial_then_complete")
        ctx.sig("%s|%s|m%d/n%d|ht%02x|%s|%d->%d" % (W.sig, spec["kind"], m, len(listed), ht_req, st.get("supply"), len(S_old), len(S_new)))
        # (ii) canonical form of what was written
        for sig in _new_sigs(_unlock_items(before_m, j), _unlock_items(m2, j)):
            if len(sig) < 9 or sig[0] != 0x30 or sig == PLACEHOLDER:
                continue
            rs = sv.strict_der(sig)
            ht_eff = ht_req | (sh.FORKID if W.forkid else 0)
            if rs is None or rs[1] > sv.HALF_N or sig[-1] != ht_eff:
                ctx.violate("C05", "non-canonical-signature-written", {"input": j, "sig": sig.hex(), "requested_hash_type": ht_eff})
                break
    # pycoin's own verdict must agree with the model on the signed copy
    _compare_verdicts(ctx, W, cp, after_v, "after-sign")
    # witness-only steps never change the txid
    if W.txid(before_m) != W.txid(m2):
        wit_only = all(a["script"] == b["script"] for a, b in zip(before_m["ins"], m2["ins"]))
        if wit_only:
            ctx.violate("C07", "txid-depends-on-witness", {})
    else:
        if any(a["witness"] != b["witness"] for a, b in zip(before_m["ins"], m2["ins"])):
            try:
                if cp.obj.id() == W.txid(m2)[::-1].hex() and cp.obj.w_id() == W.wtxid(m2)[::-1].hex():
                    ctx.probe("txid_stable_after_witness_sign")
                else:
                    ctx.violate("C07", "tx-id", {"id": cp.obj.id(), "expected": W.txid(m2)[::-1].hex()})
            except Exception as e:
                ctx.violate("C07", "tx-id-raised", {"exc": type(e).__name__})


def _sign_digests(W, cp, j, ht):
    u = cp.u[j]
    if u is None:
        return set()
    kind, par = sv.classify(u["script"])
    spec = cp.specs[j] if j < len(cp.specs) else None
    out = set()
    if spec is None:
        return None
    spk, red, ws = _puzzle(W, spec)
    if u["script"] != spk:
        return None
    k = spec["kind"]
    if W.forkid:
        # one digest algorithm for every kind; the script code is the one the kind dictates
        if k in ("p2wpkh", "p2sh-p2wpkh"):
            sc = sv.p2pkh(sv.hash160(_sec(W, spec["keys"][0])))
        elif k in ("p2wsh-multisig", "p2sh-p2wsh-multisig"):
            sc = ws
        else:
            sc = red if red is not None else spk
        if ht & sh.FORKID:
            out.add(sh.bip143(cp.m, j, sc, u["value"], ht, forkid=79 if W.sig == "btg" else None))
        return out
    if k in ("p2wpkh", "p2sh-p2wpkh"):
        h = sv.hash160(_sec(W, spec["keys"][0]))
        out.add(sh.bip143(cp.m, j, sv.p2pkh(h), u["value"], ht, single_sha=W.single))
    elif k in ("p2wsh-multisig", "p2sh-p2wsh-multisig"):
        out.add(sh.bip143(cp.m, j, ws, u["value"], ht, single_sha=W.single))
    elif k == "p2sh-multisig":
        out.add(sh.legacy(cp.m, j, red, ht, single_sha=W.single))
    else:
        out.add(sh.legacy(cp.m, j, spk, ht, single_sha=W.single))
    return out


def _compare_verdicts(ctx, W, cp, verdicts, when):
    tx = cp.obj
    flags = std_flags()
    if W.forkid:
        from pycoin.satoshi import flags as F
        flags &= ~F.VERIFY_STRICTENC
    for j, v in enumerate(verdicts):
        if v.valid is None:
            continue
        got = _pyc_std(W, ctx, tx, j, flags)
        if isinstance(got, tuple):
            ctx.violate("C06", "validation-raised", {"input": j, "exc": got[1], "msg": got[2], "when": when, "kind": v.kind})
            continue
        _check_seam(ctx, W, cp, j)
        if got != v.valid:
            prop = "C05" if when == "after-sign" else "C06"
            ctx.violate(prop, "standard-verdict-mismatch", {"input": j, "pycoin": got, "model": v.valid, "why": v.why, "kind": v.kind,
                                                            "when": when, "signed": list(v.signed)})
            continue
        # looser flags may only accept more
        d = _pyc_std(W, ctx, tx, j, None)
        if isinstance(d, tuple):
            ctx.violate("C06", "validation-raised", {"input": j, "exc": d[1], "msg": d[2], "when": when + "/default-flags"})
        elif v.valid and not d:
            ctx.violate("C06", "standard-valid-but-default-invalid", {"input": j, "kind": v.kind})
        elif cp.clean and d and not v.valid:
            # canonical unlocking data: the only reason to fail is a signature that does not verify or is missing
            ctx.violate("C06", "invalid-input-reported-valid-under-default-flags", {"input": j, "kind": v.kind, "why": v.why, "when": when})
        elif cp.ht_only and not isinstance(d, tuple):
            # unlocking data canonical except for hash-type bytes: under the default flags each signature must verify
            # against the digest its own hash-type byte defines
            lax = W.Vlax.input(cp.m, j, cp.u[j] if j < len(cp.u) else None)
            if lax.valid is not None and lax.valid != d:
                ctx.violate("C06", "default-flags-verdict-mismatch", {"input": j, "pycoin": d, "model": lax.valid, "kind": lax.kind,
                                                                      "why": lax.why, "when": when})
            elif lax.valid is not None:
                ctx.probe("default_flags_verdict_checked")


def _op_validate(ctx, W, st):
    cp = W.copies.get(st["copy"])
    if cp is None:
        return
    snap = None
    try:
        snap = cp.obj.as_bin(include_unspents=True)
    except Exception:
        pass
    verdicts = _verdicts(W, cp)
    ctx.obs("validate", st["copy"], [v.valid for v in verdicts], [v.kind for v in verdicts])
    _compare_verdicts(ctx, W, cp, verdicts, "validate")
    how = st.get("how", "each")
    flags = std_flags()
    if W.forkid:
        from pycoin.satoshi import flags as F
        flags &= ~F.VERIFY_STRICTENC
    if how == "count" and all(v.valid is not None for v in verdicts):
        try:
            n = cp.obj.bad_solution_count(flags=flags)
        except Exception as e:
            ctx.violate("C06", "validation-raised", {"exc": type(e).__name__, "msg": str(e)[:160], "when": "bad_solution_count"})
            n = None
        exp = sum(1 for v in verdicts if not v.valid)
        if n is not None and n != exp:
            ctx.violate("C06", "bad-solution-count", {"got": n, "expected": exp})
    if how == "check_solution":
        # the raising entry: returns normally exactly for a valid input
        from pycoin.coins.SolutionChecker import ScriptError
        for j, v in enumerate(verdicts):
            u = cp.u[j] if j < len(cp.u) else None
            if v.valid is None or u is None:
                # (with the spent output unknown this low-level entry runs the unlocking script against an empty puzzle, on
                # purpose: the script annotator traces through it.  The "never reported valid" guard the property names sits in
                # is_solution_ok / bad_solution_count, which are judged below)
                continue
            try:
                cp.obj.check_solution(j, flags=flags)
                got = True
            except ScriptError:
                got = False
            except Exception as e:
                got = None
                ctx.violate("C06", "validation-raised", {"input": j, "exc": type(e).__name__, "msg": str(e)[:160], "when": "check_solution"})
            ctx.probe("check_solution_entry")
            if got is not None and got != v.valid:
                ctx.violate("C06", "standard-verdict-mismatch", {"input": j, "pycoin": got, "model": v.valid, "why": v.why, "kind": v.kind,
                                                                "when": "check_solution", "signed": list(v.signed)})
    if how == "kept_context":
        # a validator that keeps its checker and per-input contexts between validations, as long as what a context
        # snapshots (version, lock time, this input's unlocking data, sequence and puzzle script) still holds
        from pycoin.coins.SolutionChecker import ScriptError
        for j, v in enumerate(verdicts):
            u = cp.u[j] if j < len(cp.u) else None
            if v.valid is None or u is None:
                continue
            i_ = cp.m["ins"][j]
            snap_j = (cp.m["version"], cp.m["locktime"], i_["script"], tuple(i_["witness"]), i_["seq"], u["script"])
            ent = W.kept_ctx.get((id(cp.obj), j))
            if ent is None or ent[0] is not cp.obj or ent[3] != snap_j:
                sc_ = cp.obj.SolutionChecker(cp.obj)
                ent = W.kept_ctx[(id(cp.obj), j)] = (cp.obj, sc_, sc_.tx_context_for_idx(j), snap_j)
            else:
                ctx.probe("validated_with_kept_context")
            try:
                ent[1].check_solution(ent[2], flags=flags)
                got = True
            except ScriptError:
                got = False
            except Exception as e:
                ctx.violate("C06", "validation-raised", {"input": j, "exc": type(e).__name__, "msg": str(e)[:160], "when": "kept context"})
                continue
            if got != v.valid:
                ctx.violate("C06", "standard-verdict-mismatch", {"input": j, "pycoin": got, "model": v.valid, "why": v.why, "kind": v.kind,
                                                                "when": "kept checker and context", "signed": list(v.signed)})
    # the list of recorded spent outputs is shorter than the list of inputs (an input was added, or the list was cut, without
    # the other being brought along): the inputs beyond its end have no known spent output and are never valid
    k_ = st.get("short_unspents")
    if k_ is not None and 0 < len(cp.obj.unspents) and k_ < len(cp.obj.unspents) == len(cp.obj.txs_in):
        full = cp.obj.unspents
        k_ = max(1, k_) if len(full) > 1 else 0
        if 0 < k_ < len(full):
            cp.obj.unspents = full[:k_]
            try:
                ctx.probe("validated_with_short_unspents_list")
                for j in range(k_, len(cp.obj.txs_in)):
                    for fl in (flags, None):
                        if _pyc_std(W, ctx, cp.obj, j, fl) is True:
                            ctx.violate("C06", "valid-without-spent-output", {"input": j, "unspents": k_, "inputs": len(cp.obj.txs_in)})
            finally:
                cp.obj.unspents = full
    # unknown spent output => never valid
    for j, u in enumerate(cp.u):
        if u is None:
            for fl in (flags, None):
                if _pyc_std(W, ctx, cp.obj, j, fl) is True:
                    ctx.violate("C06", "valid-without-spent-output", {"input": j})
    # the same bytes handed to a node of another coin, in the same process, right after this coin's validation: what that
    # coin's rules say (its own digest algorithm), never what this coin's validation left behind
    ab = st.get("abroad")
    if ab and cp.ht_only and ab != W.cfg_network and all(u is not None for u in cp.u):
        try:
            W2 = _W()
            if ab == "GRS":
                from pycoin.coins.groestlcoin.Tx import Tx as W2Tx
            else:
                from pycoin.networks.registry import network_for_netcode as _nfn
                W2Tx = _nfn(ab).tx
            W2.Tx = W2Tx
            W2.rec = W.rec
            Vf = sv.Validator({"sig": "grs" if ab == "GRS" else "btc"}, strict=False)
            foreign = _mk_obj(W2, cp.m, cp.u)
            for j in range(len(cp.m["ins"])):
                lax = Vf.input(cp.m, j, cp.u[j])
                if lax.valid is None:
                    continue
                d = _pyc_std(W2, ctx, foreign, j, None)
                if isinstance(d, tuple):
                    continue
                ctx.probe("validated_as_another_coin_in_same_process")
                if d != lax.valid:
                    ctx.violate("C06", "verdict-leaks-between-coins", {"input": j, "pycoin": d, "model": lax.valid, "as": ab,
                                                                       "own": W.cfg_network, "kind": lax.kind, "why": lax.why})
        except Abort:
            raise
        except Exception as e:
            raise HarnessError("abroad validation: %s %s" % (type(e).__name__, str(e)[:120]))
    # a fresh object gives the same verdicts as the long-lived one
    if all(v.valid is not None for v in verdicts):
        try:
            fresh = _mk_obj(W, cp.m, cp.u)
            a = [_pyc_std(W, ctx, fresh, j, flags) for j in range(len(verdicts))]
            b = [_pyc_std(W, ctx, cp.obj, j, flags) for j in range(len(verdicts))]
            dc = copy.deepcopy(cp.obj)
            c = [_pyc_std(W, ctx, dc, j, flags) for j in range(len(verdicts))]
            if a != b or c != b:
                ctx.violate("C06", "verdict-depends-on-object-history", {"fresh": a, "long_lived": b, "deepcopy": c})
            else:
                ctx.probe("revalidate_fresh_equal")
        except Exception as e:
            ctx.violate("C06", "validation-raised", {"exc": type(e).__name__, "msg": str(e)[:160], "when": "fresh"})
    # validation never modifies the transaction
    if snap is not None:
        try:
            if cp.obj.as_bin(include_unspents=True) != snap:
                ctx.violate("C04", "validation-modified-transaction", {})
        except Exception:
            pass


def _op_fork(ctx, W, st):
    cp = W.copies.get(st["copy"])
    if cp is None:
        return
    n = _Copy(copy.deepcopy(cp.obj), copy.deepcopy(cp.m), copy.deepcopy(cp.u))
    n.clean = cp.clean
    n.ht_only = cp.ht_only
    n.specs = copy.deepcopy(cp.specs)
    W.copies[st["dst"]] = n
    ctx.fault("stale_copy_signed")


def _op_send(ctx, W, st):
    cp = W.copies.get(st["copy"])
    if cp is None:
        return
    enc = st["enc"]
    with_u = enc.endswith("+unspents") and all(u is not None for u in cp.u)
    tx = cp.obj
    try:
        if enc.startswith("hex"):
            ctx.probe("wire_hex")
            blob = tx.as_hex(include_unspents=with_u)
            raw = bytes.fromhex(blob)
            got = W.Tx.from_hex(blob)
        else:
            ctx.probe("wire_bin")
            raw = tx.as_bin(include_unspents=with_u)
            got = W.Tx.from_bin(raw)
        raw2 = got.as_bin(include_unspents=with_u)
        streamed = io.BytesIO()
        tx.stream(streamed)
        parsed = W.Tx.parse(io.BytesIO(streamed.getvalue()))
        ids = (tx.id(), got.id(), tx.w_id(), bytes(tx.hash()))
    except Exception as e:
        ctx.violate("C07", "transport-raised", {"enc": enc, "exc": type(e).__name__, "msg": str(e)[:200]})
        return
    exp = mw.enc_tx(cp.m)
    exp_u = exp
    if with_u:
        ctx.probe("wire_unspents")
        for u in cp.u:
            exp_u += struct.pack("<Q", u["value"]) + mw.compact(len(u["script"])) + u["script"]
    ctx.obs("send", st["copy"], enc, len(raw))
    if len(cp.m["ins"]) >= 253:
        ctx.probe("inputs>=253")
    if raw != exp_u:
        ctx.violate("C07", "wire-bytes", {"enc": enc, "got": raw.hex()[:120], "expected": exp_u.hex()[:120], "len": [len(raw), len(exp_u)]})
    if streamed.getvalue() != exp:
        ctx.violate("C07", "wire-bytes", {"enc": "stream", "len": [len(streamed.getvalue()), len(exp)]})
    if raw2 != raw:
        ctx.violate("C07", "reserialisation-differs", {"enc": enc})
    gm, gu = _read_obj(got)
    if gm != cp.m or mw.tx_from_pycoin(parsed) != cp.m:
        ctx.violate("C07", "parsed-fields-differ", {"enc": enc})
    if with_u:
        # zero-valued spent outputs do not survive the extension by design; the statement says non-zero
        if all(u["value"] != 0 for u in cp.u) and gu != cp.u:
            ctx.violate("C07", "unspents-extension-roundtrip", {"enc": enc})
    if ids[0] != W.txid(cp.m)[::-1].hex() or ids[1] != ids[0] or ids[2] != W.wtxid(cp.m)[::-1].hex() or ids[3] != W.txid(cp.m):
        ctx.violate("C07", "tx-id", {"id": ids[0], "expected": W.txid(cp.m)[::-1].hex(), "w_id": ids[2]})
    ext_ok = with_u and all(u["value"] != 0 for u in cp.u) and gu == cp.u
    n = _Copy(got, gm, copy.deepcopy(cp.u))
    if not ext_ok:
        # the receiver learns the spent outputs out of band (as spendables)
        try:
            got.set_unspents([None if u is None else W.Tx.TxOut(u["value"], u["script"]) for u in cp.u])
        except Exception as e:
            ctx.violate("C07", "transport-raised", {"enc": enc, "exc": type(e).__name__, "msg": str(e)[:200]})
            return
    n.clean = cp.clean
    n.ht_only = cp.ht_only
    n.specs = copy.deepcopy(cp.specs)
    W.copies[st["dst"]] = n


def _op_tamper(ctx, W, st):
    cp = W.copies.get(st["copy"])
    if cp is None:
        return
    m, u = cp.m, cp.u
    snapshot = (copy.deepcopy(m), copy.deepcopy(u), cp.clean, copy.deepcopy(cp.specs), cp.ht_only)
    kind = st["kind"]
    a, b, bit, val = st["a"], st["b"], st["bit"], st["val"]
    nin, nout = len(m["ins"]), len(m["outs"])
    field = True
    try:
        if kind == "version":
            m["version"] = (m["version"] + val) & 0xFFFFFFFF
        elif kind == "locktime":
            m["locktime"] = (m["locktime"] + val) & 0xFFFFFFFF
        elif kind == "outpoint":
            j = a % nin
            if b & 1:
                pb = bytearray(m["ins"][j]["prev"])
                pb[b % 32] ^= 1 << bit
                m["ins"][j]["prev"] = bytes(pb)
            else:
                m["ins"][j]["idx"] = (m["ins"][j]["idx"] + 1) & 0xFFFFFFFF
        elif kind == "sequence":
            j = a % nin
            m["ins"][j]["seq"] = (m["ins"][j]["seq"] ^ (1 << (b % 32))) & 0xFFFFFFFF
        elif kind == "out_value":
            if not nout:
                return
            k = a % nout
            m["outs"][k]["value"] = min((1 << 64) - 1, max(0, m["outs"][k]["value"] + val))
        elif kind == "out_script":
            if not nout:
                return
            k = a % nout
            s = bytearray(m["outs"][k]["script"] or b"\x51")
            s[b % len(s)] ^= 1 << bit
            m["outs"][k]["script"] = bytes(s)
        elif kind == "out_add":
            m["outs"].insert(a % (nout + 1), {"value": abs(val), "script": bytes.fromhex(st["bytes"])[: b % 33]})
        elif kind == "out_remove":
            if not nout:
                return
            del m["outs"][a % nout]
        elif kind == "out_swap":
            if nout < 2:
                return
            i1, i2 = a % nout, b % nout
            if i1 == i2:
                return
            m["outs"][i1], m["outs"][i2] = m["outs"][i2], m["outs"][i1]
        elif kind == "in_remove":
            if nin < 2:
                return
            j = a % nin
            del m["ins"][j]
            del u[j]
            if j < len(cp.specs):
                del cp.specs[j]
        elif kind == "in_swap":
            if nin < 2:
                return
            i1, i2 = a % nin, b % nin
            if i1 == i2:
                return
            m["ins"][i1], m["ins"][i2] = m["ins"][i2], m["ins"][i1]
            u[i1], u[i2] = u[i2], u[i1]
            if max(i1, i2) < len(cp.specs):
                cp.specs[i1], cp.specs[i2] = cp.specs[i2], cp.specs[i1]
        elif kind == "unlock_swap":
            if nin < 2:
                return
            i1, i2 = a % nin, b % nin
            if i1 == i2:
                return
            for f in ("script", "witness"):
                m["ins"][i1][f], m["ins"][i2][f] = m["ins"][i2][f], m["ins"][i1][f]
            field = False
        elif kind == "unspent_value":
            j = a % nin
            if u[j] is None:
                return
            nv = max(0, u[j]["value"] + val)
            if nv > (1 << 64) - 1:
                nv = u[j]["value"] - abs(val)
            u[j]["value"] = nv
            ctx.fault("tamper_unspent")
        elif kind == "unspent_script":
            j = a % nin
            if u[j] is None:
                return
            s = bytearray(u[j]["script"])
            k0, par = sv.classify(bytes(s))
            # flip a bit inside the hash / key bytes only (never an opcode): the result is still a standard template
            if k0 in ("p2pkh",):
                lo, hi = 3, 23
            elif k0 == "p2sh":
                lo, hi = 2, 22
            elif k0 in ("p2wpkh", "p2wsh"):
                lo, hi = 2, len(s)
            elif k0 == "p2pk":
                lo, hi = 2, len(s) - 1
            else:
                return
            s[lo + b % (hi - lo)] ^= 1 << bit
            u[j]["script"] = bytes(s)
            ctx.fault("tamper_unspent")
        elif kind == "unspent_drop":
            j = a % nin
            u[j] = None
            ctx.fault("unspent_dropped")
        elif kind == "sig_hashtype":
            # change only the hash-type byte of one signature (DER body untouched)
            j = a % nin
            items = sv.parse_push_only(m["ins"][j]["script"])
            if isinstance(items, str):
                return
            wit = list(m["ins"][j]["witness"])
            pool = [("s", i) for i in range(len(items)) if len(items[i]) >= 9 and items[i][0] == 0x30] + \
                   [("w", i) for i in range(len(wit)) if len(wit[i]) >= 9 and wit[i][0] == 0x30]
            if not pool:
                return
            where, i = pool[b % len(pool)]
            src = items if where == "s" else wit
            mask = [0x20, 0x40, 0x60, 0x80, 0x02, 0x03, 0x01, 1 << bit][(b >> 5) % 8]
            src[i] = src[i][:-1] + bytes([src[i][-1] ^ mask])
            if where == "s":
                m["ins"][j]["script"] = b"".join(sh.push(x) for x in items)
            else:
                m["ins"][j]["witness"] = wit
            field = "hashtype"
        elif kind in ("sig_bit", "key_bit", "script_item_bit"):
            j = a % nin
            items = sv.parse_push_only(m["ins"][j]["script"])
            if isinstance(items, str):
                return
            wit = list(m["ins"][j]["witness"])
            pool = [("s", i) for i in range(len(items))] + [("w", i) for i in range(len(wit))]

            def want(it):
                if kind == "sig_bit":
                    return len(it) >= 9 and it[0] == 0x30
                if kind == "key_bit":
                    return len(it) in (33, 65) and it[0] in (2, 3, 4)
                return len(it) > 0 and not (len(it) >= 9 and it[0] == 0x30) and len(it) not in (33, 65)
            pool = [p for p in pool if want(items[p[1]] if p[0] == "s" else wit[p[1]])]
            if not pool:
                return
            where, i = pool[b % len(pool)]
            src = items if where == "s" else wit
            ba = bytearray(src[i])
            ba[(b >> 4) % len(ba)] ^= 1 << bit
            src[i] = bytes(ba)
            if where == "s":
                m["ins"][j]["script"] = b"".join(sh.push(x) for x in items)
            else:
                m["ins"][j]["witness"] = wit
            field = False
        else:
            return
    except (ZeroDivisionError, IndexError):
        cp.m, cp.u = snapshot[0], snapshot[1]
        return
    if field == "hashtype":
        cp.clean = False
        ctx.fault("tamper_signature_hash_type")
    elif not field:
        cp.clean = False
        cp.ht_only = False
        ctx.fault("tamper_unlocking_data")
    else:
        ctx.fault("tamper_field")
    cp.history.append(snapshot)
    ctx.nontrivial = True
    before_v = [v.valid for v in [W.V.input(snapshot[0], j, snapshot[1][j] if j < len(snapshot[1]) else None)
                                   for j in range(len(snapshot[0]["ins"]))]]
    try:
        cp.obj.id(), cp.obj.w_id()    # (the ids have been looked at before the change: whatever is remembered must follow it)
    except Exception:
        pass
    try:
        _write_obj(W, cp)
    except Exception as e:
        raise HarnessError("cannot write tampered fields: %r" % (e,))
    m2, u2 = _read_obj(cp.obj)
    if m2 != cp.m or u2 != cp.u:
        raise HarnessError("object and model diverged after tamper %s" % kind)
    _ids_follow(ctx, W, cp, "tamper " + kind)
    after_v = [v.valid for v in _verdicts(W, cp)]
    ctx.obs("tamper", st["copy"], kind, before_v, after_v)
    if len(before_v) == len(after_v) and kind not in ("in_swap", "unlock_swap"):
        for x, y in zip(before_v, after_v):
            if x and y:
                ctx.probe("noncommitted_change_still_valid")
            elif x and y is False:
                ctx.probe("committed_change_invalidates")


def _ids_follow(ctx, W, cp, when):
    """the ids of the long-lived object are those of its current fields"""
    try:
        got = (cp.obj.id(), cp.obj.w_id())
    except Exception as e:
        ctx.violate("C07", "tx-id-raised", {"exc": type(e).__name__, "after": when})
        return
    exp = (W.txid(cp.m)[::-1].hex(), W.wtxid(cp.m)[::-1].hex())
    if got != exp:
        ctx.violate("C07", "tx-id", {"id": got[0], "expected": exp[0], "w_id": got[1], "expected_w_id": exp[1], "after": when})


def _op_revert(ctx, W, st):
    cp = W.copies.get(st["copy"])
    if cp is None or not cp.history:
        return
    try:
        cp.obj.id(), cp.obj.w_id()
    except Exception:
        pass
    cp.m, cp.u, cp.clean, cp.specs, cp.ht_only = cp.history.pop()
    _write_obj(W, cp)
    m2, u2 = _read_obj(cp.obj)
    if m2 != cp.m or u2 != cp.u:
        raise HarnessError("object and model diverged after revert")
    ctx.fault("revert")
    _ids_follow(ctx, W, cp, "revert")


def _script_for(W, cp, st, idx):
    r = st["seed"]
    kind = st["script"]
    base = b""
    if idx < len(cp.u) and cp.u[idx] is not None:
        base = cp.u[idx]["script"]
    if idx < len(cp.specs):
        spk, red, ws = _puzzle(W, cp.specs[idx])
        base = ws or red or spk
    if kind == "puzzle":
        return base
    if kind == "codesep":
        # code separators in front, in the middle (opcode aligned) and at the end, plus a push containing 0xab
        return b"\xab" + sh.push(b"\xab\xab") + base + b"\xab" + sh.push(struct.pack("<I", r)) + b"\xab\xab"
    x = hashlib.sha256(struct.pack("<I", r)).digest()
    if kind == "truncated":
        # a script code whose last instruction is a push announcing more bytes than are left (consensus keeps such a tail
        # verbatim); code separators and a push of 0xab in front of it
        body = bytearray(x[: r % 4])
        if body and (r >> 8) & 1:
            body[(r >> 9) % len(body)] = 0xAB     # something that would be a code separator if it were decoded
        tail = bytes([[0x05, 0x4C, 0x4D, 0x4E, 0x20][r % 5]]) + bytes(body)
        return b"\xab" + base + sh.push(b"\xab") + b"\xab" + tail
    if kind == "sized":
        # a well-formed script code of an exact length (data-less opcodes only), to sit on the compact-size boundaries
        ops = bytes([0x76, 0x87, 0xac, 0x61, 0x51, 0x75, 0xab if r & 1 else 0x61])
        n = st.get("len", 0)
        return bytes(ops[(x[i % 32] + i) % len(ops)] for i in range(n))
    return sh.push(x[: r % 33]) + bytes([0x76, 0xab, 0x87]) + sh.push(x) + b"\xac"


def _op_sighash(ctx, W, st):
    cp = W.copies.get(st["copy"])
    if cp is None:
        return
    tx = cp.obj
    nin = len(cp.m["ins"])
    idx = st["idx"] % nin if st["idx"] < nin or nin == 0 else st["idx"] % nin
    script = _script_for(W, cp, st, idx)
    if st["script"] == "codesep":
        ctx.probe("codeseparator_script")
    if st["script"] == "sized" and len(script) >= 253:
        ctx.probe("sighash_script_code>=253")
    hts = range(256) if st.get("all256") else [st["ht"], 1, 2, 3, 0x81, 0x82, 0x83, 0x41, 0xc3, 0]
    if st.get("all256"):
        ctx.probe("sighash_direct_256")
    try:
        snap = tx.as_bin()
    except Exception:
        snap = None
    if st.get("checker") == "reuse":
        # one checker object kept for the transaction while the transaction is edited between the calls
        ent = W.checkers.get(id(tx))
        if ent is None or ent[0] is not tx:
            ent = W.checkers[id(tx)] = (tx, tx.SolutionChecker(tx))
        else:
            ctx.probe("checker_object_reused")
        sc = ent[1]
    else:
        sc = tx.SolutionChecker(tx)
    value = cp.u[idx]["value"] if idx < len(cp.u) and cp.u[idx] is not None else None
    for ht in hts:
        if idx >= len(cp.m["outs"]) and (ht & 0x1F) == 3:
            ctx.probe("sighash_single_no_output")
        # legacy entry point (for fork-id coins this is the fork-id digest)
        try:
            got = sc._signature_hash(script, idx, ht)
        except Exception as e:
            got = ("raised", type(e).__name__)
        if not W.forkid:
            exp = sh.legacy(cp.m, idx, script, ht, single_sha=W.single)
        elif not ht & sh.FORKID:
            exp = "refused"
        elif value is None:
            exp = None
        else:
            exp = sh.bip143(cp.m, idx, script, value, ht, forkid=79 if W.sig == "btg" else None)
        if exp == "refused":
            if not isinstance(got, tuple):
                ctx.violate("C04", "forkid-hash-type-not-refused", {"hash_type": ht, "got": got})
        elif exp is not None and got != exp:
            ctx.violate("C04", "signature-hash-legacy-entry", {"hash_type": ht, "input": idx, "script": script.hex()[:80],
                                                               "got": got if isinstance(got, tuple) else "%064x" % got, "expected": "%064x" % exp})
            break
        # BIP143 entry point
        if value is not None:
            try:
                got = sc._signature_for_hash_type_segwit(script, idx, ht)
            except Exception as e:
                got = ("raised", type(e).__name__)
            exp = sh.bip143(cp.m, idx, script, value, ht, forkid=79 if W.sig == "btg" else None, single_sha=W.single)
            if W.sig == "btg" and not ht & sh.FORKID:
                # Bitcoin Gold overrides this entry too (it is what the VM calls for witness programs, and it folds the fork
                # id in): it is a fork-id variant, and those refuse hash types without the fork-id bit
                if not isinstance(got, tuple):
                    ctx.violate("C04", "forkid-hash-type-not-refused", {"hash_type": ht, "entry": "witness", "got": "%064x" % got})
                    break
                continue
            if got != exp:
                ctx.violate("C04", "signature-hash-bip143-entry", {"hash_type": ht, "input": idx,
                                                                   "got": got if isinstance(got, tuple) else "%064x" % got, "expected": "%064x" % exp})
                break
    # the closure the VM calls: code after the last executed OP_CODESEPARATOR, signature pushes removed
    if not W.forkid:
        class _VM(object):
            pass
        vm = _VM()
        sig = bytes.fromhex("30060201010201" + "01") + bytes([st["ht"]])
        full = sh.push(sig) + script + sh.push(sig)
        vm.script = b"\x51\xab" + full
        vm.begin_code_hash = 2
        try:
            got = sc._make_sighash_f(idx)(st["ht"], [sig], vm)
            exp = sh.legacy(cp.m, idx, sh.find_and_delete(full, sig), st["ht"], single_sha=W.single)
            if got != exp:
                ctx.violate("C04", "signature-hash-closure", {"hash_type": st["ht"], "input": idx})
        except Exception as e:
            ctx.violate("C04", "signature-hash-closure-raised", {"exc": type(e).__name__, "msg": str(e)[:160]})
    ctx.obs("sighash", st["copy"], idx, st["script"])
    if snap is not None:
        try:
            if tx.as_bin() != snap or _read_obj(tx)[0] != cp.m:
                ctx.violate("C04", "sighash-modified-transaction", {})
        except Exception:
            pass


def _op_readonly(ctx, W, st):
    cp = W.copies.get(st["copy"])
    if cp is None:
        return
    tx = cp.obj
    try:
        before = tx.as_bin(include_unspents=not tx.missing_unspents())
        r = (tx.id(), tx.w_id(), len(tx.as_bin()))
        try:
            tx.check()
        except Exception:
            pass
        try:
            tx.fee()
        except Exception:
            pass
        tx.bad_solution_count()
        repr(tx)
        after = tx.as_bin(include_unspents=not tx.missing_unspents())
    except Exception as e:
        ctx.violate("C07", "readonly-op-raised", {"exc": type(e).__name__, "msg": str(e)[:160]})
        return
    ctx.obs("readonly", r[0])
    if before != after:
        ctx.violate("C04", "readonly-op-modified-transaction", {})
    if r[0] != W.txid(cp.m)[::-1].hex() or r[1] != W.wtxid(cp.m)[::-1].hex():
        ctx.violate("C07", "tx-id", {"id": r[0], "expected": W.txid(cp.m)[::-1].hex()})


def _op_spendables(ctx, W, st):
    """the coordinator hands the recorded spent outputs to a cosigner as spendable records"""
    cp = W.copies.get(st["copy"])
    if cp is None:
        return
    S = W.Tx.Spendable
    form = st["form"]
    ctx.probe("spendable_form_" + form)
    for j, u in enumerate(cp.u):
        if u is None:
            continue
        i = cp.m["ins"][j]
        fields = (u["value"], u["script"], i["prev"], i["idx"], st["bia"], int(bool(st["spent"])), st["bis"])
        try:
            sp = S(u["value"], u["script"], i["prev"], i["idx"], st["bia"], st["spent"], st["bis"])
            if form == "text":
                back = S.from_text(sp.as_text())
            elif form == "dict":
                back = S.from_dict(sp.as_dict())
            else:
                blob = sp.as_bin(as_spendable=True)
                back = S.from_bin(blob)
            got = (back.coin_value, bytes(back.script), bytes(back.tx_hash), back.tx_out_index, back.block_index_available,
                   int(back.does_seem_spent), back.block_index_spent)
            txin = back.tx_in()
        except Exception as e:
            ctx.violate("C07", "spendable-roundtrip-raised", {"form": form, "exc": type(e).__name__, "msg": str(e)[:200]})
            return
        ctx.obs("spendable", form, j)
        if got != fields:
            ctx.violate("C07", "spendable-roundtrip-fields", {"form": form, "got": [str(x)[:40] for x in got],
                                                              "expected": [str(x)[:40] for x in fields]})
            return
        if (bytes(txin.previous_hash), txin.previous_index) != (i["prev"], i["idx"]):
            ctx.violate("C07", "spendable-roundtrip-fields", {"form": form, "why": "tx_in outpoint"})
            return
        if form == "bin":
            exp = (struct.pack("<Q", u["value"]) + mw.compact(len(u["script"])) + u["script"] + i["prev"] + struct.pack("<I", i["idx"])
                   + mw.compact(st["bia"]) + bytes([1 if st["spent"] else 0]) + mw.compact(st["bis"]))
            if blob != exp:
                ctx.violate("C07", "spendable-binary-bytes", {"got": blob.hex()[:120], "expected": exp.hex()[:120]})
                return


def _op_spendable_rec(ctx, W, st):
    """a spendable record given literally in the plan goes through its text, dictionary and binary forms"""
    class _C(object):
        pass
    cp = _C()
    cp.u = [{"value": st["value"], "script": bytes.fromhex(st["script"])}]
    cp.m = {"ins": [{"prev": bytes.fromhex(st["prev"]), "idx": st["idx"]}]}
    saved = W.copies.get("__rec__")
    W.copies["__rec__"] = cp
    try:
        for form in ("text", "dict", "bin"):
            _op_spendables(ctx, W, dict(st, copy="__rec__", form=form))
    finally:
        if saved is None:
            W.copies.pop("__rec__", None)
        else:
            W.copies["__rec__"] = saved


def _op_wire_big(ctx, W, st):
    """a transaction built only to cross a compact-size boundary on the wire (never signed)"""
    n, what = st["n"], st["what"]
    x = hashlib.sha256(struct.pack("<I", st["seed"])).digest()

    def blob(k):
        return (x * (k // 32 + 1))[:k]

    m = {"version": 2, "locktime": st["seed"] & 0xFFFFFFFF,
         "ins": [{"prev": x, "idx": 1, "script": b"", "seq": 0xFFFFFFFE, "witness": []}],
         "outs": [{"value": st["value"], "script": blob(25)}]}
    if what == "inputs":
        n = max(1, min(n, 300))   # the statement speaks about transactions with at least one input
        m["ins"] = [{"prev": hashlib.sha256(x + struct.pack("<I", j)).digest(), "idx": j, "script": b"", "seq": j, "witness": []} for j in range(n)]
        if n >= 253:
            ctx.probe("inputs>=253")
    elif what == "outputs":
        n = min(n, 300)
        m["outs"] = [{"value": j, "script": blob(j % 40)} for j in range(n)]
    elif what == "out_script":
        m["outs"][0]["script"] = blob(n)
    elif what == "in_script":
        m["ins"][0]["script"] = blob(n)
    elif what == "witness_item":
        m["ins"][0]["witness"] = [b"", blob(n), b"\x01"]
    else:
        n = min(n, 300)
        m["ins"][0]["witness"] = [blob(j % 5) for j in range(n)]
    try:
        tx = _mk_obj(W, m, [None] * len(m["ins"]))
        raw = tx.as_bin()
        back = W.Tx.from_bin(raw)
        raw2 = back.as_bin()
        hexed = W.Tx.from_hex(tx.as_hex()).as_bin()
        ids = (tx.id(), tx.w_id())
    except Exception as e:
        ctx.violate("C07", "transport-raised", {"enc": "big:" + what, "n": n, "exc": type(e).__name__, "msg": str(e)[:200]})
        return
    ctx.probe("wire_big_" + what)
    exp = mw.enc_tx(m)
    ctx.obs("wire_big", what, n, len(raw))
    if raw != exp:
        k = next((i for i, (a, b) in enumerate(zip(raw, exp)) if a != b), min(len(raw), len(exp)))
        ctx.violate("C07", "wire-bytes", {"enc": "big:" + what, "n": n, "first_difference_at": k, "got": raw[max(0, k - 4):k + 12].hex(),
                                          "expected": exp[max(0, k - 4):k + 12].hex(), "len": [len(raw), len(exp)]})
    if raw2 != raw or hexed != raw:
        ctx.violate("C07", "reserialisation-differs", {"enc": "big:" + what, "n": n})
    if mw.tx_from_pycoin(back) != m:
        ctx.violate("C07", "parsed-fields-differ", {"enc": "big:" + what, "n": n})
    if ids != (W.txid(m)[::-1].hex(), W.wtxid(m)[::-1].hex()):
        ctx.violate("C07", "tx-id", {"id": ids[0], "expected": W.txid(m)[::-1].hex()})


def _op_wire_tx(ctx, W, st):
    """an arbitrary transaction given literally in the plan crosses the wire in every form"""
    t = st["tx"]
    m = {"version": t["version"], "locktime": t["locktime"],
         "ins": [{"prev": bytes.fromhex(i["prev"]), "idx": i["idx"], "script": bytes.fromhex(i["script"]), "seq": i["seq"],
                  "witness": [bytes.fromhex(w) for w in i["witness"]]} for i in t["ins"]],
         "outs": [{"value": o["value"], "script": bytes.fromhex(o["script"])} for o in t["outs"]]}
    try:
        tx = _mk_obj(W, m, [None] * len(m["ins"]))
        via = st.get("wit_via")
        if via:
            # the witness handed over through the public setter, in whatever container the caller has at hand
            for j_, i_ in enumerate(m["ins"]):
                w_ = list(i_["witness"])
                if not w_:
                    continue
                arg = {"list": w_, "tuple": tuple(w_), "iter": iter(w_), "gen": (x_ for x_ in w_)}[via]
                tx.set_witness(j_, arg)
                if via in ("iter", "gen"):
                    ctx.probe("wire_tx_set_witness_one_shot_iterator")
        raw = tx.as_bin()
        legacy = tx.as_bin(include_witness_data=False)
        back = W.Tx.from_bin(raw)
        raw2 = back.as_bin()
        viahex = W.Tx.from_hex(tx.as_hex())
        f = io.BytesIO()
        tx.stream(f)
        parsed = W.Tx.parse(io.BytesIO(f.getvalue()))
        ids = (tx.id(), tx.w_id(), back.id(), back.w_id(), bytes(tx.hash()), bytes(tx.w_hash()))
    except Exception as e:
        ctx.violate("C07", "transport-raised", {"enc": "tx", "exc": type(e).__name__, "msg": str(e)[:200]})
        return
    exp = mw.enc_tx(m)
    ctx.obs("wire_tx", len(raw), mw.has_witness(m))
    if st.get("unspents") and len(st["unspents"]) == len(m["ins"]):
        # the optional appended spent-output extension, for any non-zero 64-bit amount
        us = [{"value": v, "script": bytes.fromhex(sc)} for v, sc in st["unspents"]]
        try:
            tx.set_unspents([W.Tx.TxOut(u["value"], u["script"]) for u in us])
            rawu = tx.as_bin(include_unspents=True)
            backu = W.Tx.from_bin(rawu)
            hexu = W.Tx.from_hex(tx.as_hex(include_unspents=True))
            gotu = [_read_obj(o)[1] for o in (backu, hexu)]
            again = backu.as_bin(include_unspents=True)
        except Exception as e:
            ctx.violate("C07", "transport-raised", {"enc": "tx+unspents", "exc": type(e).__name__, "msg": str(e)[:200]})
            return
        ctx.probe("wire_tx_unspents")
        expu = exp + b"".join(struct.pack("<Q", u["value"]) + mw.compact(len(u["script"])) + u["script"] for u in us)
        if rawu != expu:
            ctx.violate("C07", "wire-bytes", {"enc": "tx+unspents", "len": [len(rawu), len(expu)]})
        if any(g != us for g in gotu):
            ctx.violate("C07", "unspents-extension-roundtrip", {"enc": "tx+unspents", "sent": [u["value"] for u in us],
                                                                "got": [[None if x is None else x["value"] for x in g] for g in gotu]})
        elif again != rawu:
            ctx.violate("C07", "reserialisation-differs", {"enc": "tx+unspents"})
    if mw.has_witness(m):
        ctx.probe("wire_tx_witness")
        if all(not any(i["witness"]) for i in m["ins"]):
            ctx.probe("wire_tx_witness_only_empty_items")
    if raw != exp or f.getvalue() != exp:
        ctx.violate("C07", "wire-bytes", {"enc": "tx", "bip144_expected": mw.has_witness(m), "got": raw.hex()[:100], "expected": exp.hex()[:100],
                                          "len": [len(raw), len(exp)]})
    if legacy != mw.enc_tx(m, witness=False):
        ctx.violate("C07", "wire-bytes", {"enc": "tx-legacy-form"})
    if raw2 != raw or viahex.as_bin() != raw:
        ctx.violate("C07", "reserialisation-differs", {"enc": "tx"})
    for name, obj in (("from_bin", back), ("from_hex", viahex), ("parse", parsed)):
        if mw.tx_from_pycoin(obj) != m:
            ctx.violate("C07", "parsed-fields-differ", {"enc": "tx:" + name,
                                                        "witness_sent": [[len(w) for w in i["witness"]] for i in m["ins"]]})
            break
    if ids != (W.txid(m)[::-1].hex(), W.wtxid(m)[::-1].hex(), W.txid(m)[::-1].hex(), W.wtxid(m)[::-1].hex(), W.txid(m), W.wtxid(m)):
        ctx.violate("C07", "tx-id", {"id": ids[0], "expected": W.txid(m)[::-1].hex(), "w_id": ids[1], "expected_w_id": W.wtxid(m)[::-1].hex()})


def _op_permute(ctx, W, st):
    """the same signing passes in two different orders on two fresh copies of the unsigned transaction"""
    base = W.copies.get("c0")
    if base is None or len(base.specs) != len(base.m["ins"]):
        return
    unsigned = copy.deepcopy(base.m)
    for i in unsigned["ins"]:
        i["script"], i["witness"] = b"", []
    if any(u is None for u in base.u):
        return
    results = []
    for order in (list(range(len(st["passes"]))), st["perm"]):
        tx = _mk_obj(W, unsigned, base.u)
        for pi in order:
            p = st["passes"][pi]
            res = _do_sign(ctx, W, tx, {"supply": "dict", "hash_type": p["hash_type"]}, _key_material(W, p["keys"]))
            if res is not None:
                ctx.violate("C05", "sign-raised", {"exc": res[1], "msg": res[-1]})
                return
        m2, u2 = _read_obj(tx)
        vs = [W.V.input(m2, j, u2[j]) for j in range(len(m2["ins"]))]
        results.append([(v.valid, len(v.signed) if not v.valid else None) for v in vs])
    ctx.probe("order_permutation_checked")
    ctx.nontrivial = True
    ctx.obs("permute", results)
    if [x[0] for x in results[0]] != [x[0] for x in results[1]]:
        ctx.violate("C05", "validity-depends-on-signing-order", {"in_order": results[0], "permuted": results[1], "perm": st["perm"]})


def _op_oneshot(ctx, W, st):
    """create_signed_tx: spendables + payables + WIFs in one call.  It either returns a transaction every input of which is
    valid, or raises; what it returns differs from create_tx's result in unlocking data only."""
    from pycoin.solve.utils import build_p2sh_lookup
    from pycoin.coins.tx_utils import SecretExponentMissing
    b0 = getattr(W, "built0", None)
    if b0 is None or not hasattr(W.net, "tx_utils") or W.single:
        return
    specs, ins, unspents = b0
    total = sum(u["value"] for u in unspents)
    npay = len(st["pay"])
    if total >= (1 << 63) or total - st["fee"] < npay:
        return
    S = W.Tx.Spendable
    spendables = [S(u["value"], u["script"], i["prev"], i["idx"]) for u, i in zip(unspents, ins)]
    if st.get("form") == "text":
        spendables = [x.as_text() for x in spendables]
    elif st.get("form") == "dict":
        spendables = [x.as_dict() for x in spendables]
    payables = [W.net.address.for_p2pkh(sv.hash160(_sec(W, k))) for k in st["pay"] if k < len(W.keys)]
    if not payables:
        return
    supplied = set(k for k in st["keys"] if 0 <= k < len(W.keys))
    wifs = [W.net.keys.private(W.keys[k]["d"], is_compressed=W.keys[k]["compressed"]).wif() for k in sorted(supplied)]
    satisfiable = all(len(set(sp["keys"]) & supplied) >= sp["m"] for sp in specs)
    ctx.probe("oneshot_create_signed_tx")
    kw = dict(fee=st["fee"], lock_time=st["locktime"], version=st["version"])
    try:
        unsigned = W.net.tx_utils.create_tx(spendables, payables, **kw)
    except Exception as e:
        ctx.violate("C05", "sign-raised", {"exc": type(e).__name__, "msg": str(e)[:200], "when": "create_tx"})
        return
    W.rec.signed.clear()
    try:
        tx = W.net.tx_utils.create_signed_tx(spendables, payables, wifs=wifs, p2sh_lookup=build_p2sh_lookup(W.scripts), **kw)
    except SecretExponentMissing as e:
        ctx.obs("oneshot", "SecretExponentMissing")
        if satisfiable:
            ctx.violate("C05", "oneshot-refused-although-keys-supplied", {"msg": str(e)[:160], "kinds": [sp["kind"] for sp in specs]})
        else:
            ctx.probe("oneshot_refused_missing_key")
            ctx.nontrivial = True
        return
    except Exception as e:
        ctx.violate("C05", "sign-raised", {"exc": type(e).__name__, "msg": str(e)[:200], "when": "create_signed_tx"})
        return
    m, u = _read_obj(tx)
    mu, uu = _read_obj(unsigned)
    ctx.obs("oneshot", W.txid(m)[::-1].hex())
    if not satisfiable:
        ctx.violate("C05", "oneshot-returned-with-unsigned-input", {"supplied": sorted(supplied), "kinds": [sp["kind"] for sp in specs]})
    stripped = copy.deepcopy(m)
    for i in stripped["ins"]:
        i["script"], i["witness"] = b"", []
    if stripped != mu or u != uu:
        ctx.violate("C05", "signing-changed-other-field", {"field": "create_signed_tx differs from create_tx outside unlocking data"})
    n = _Copy(tx, m, u)
    n.specs = [dict(x) for x in specs]
    W.copies[st["dst"]] = n
    verdicts = _verdicts(W, n)
    if satisfiable:
        for j, v in enumerate(verdicts):
            if v.valid is False:
                ctx.violate("C05", "valid-iff-m-signatures", {"input": j, "kind": specs[j]["kind"], "m": specs[j]["m"], "signed": sorted(v.signed),
                                                              "valid": False, "why": v.why, "when": "oneshot"})
    _compare_verdicts(ctx, W, n, verdicts, "after-sign")


_OPS = {"oneshot": _op_oneshot, "build": _op_build, "sign": _op_sign, "validate": _op_validate, "fork": _op_fork, "send": _op_send,
        "tamper": _op_tamper, "revert": _op_revert, "sighash": _op_sighash, "readonly": _op_readonly, "permute": _op_permute,
        "spendables": _op_spendables, "spendable_rec": _op_spendable_rec, "wire_big": _op_wire_big, "wire_tx": _op_wire_tx}


def normal_form(plan):
    cfg = plan["config"]
    out = []
    for s in plan["steps"]:
        if s.get("op") == "build":
            out.append(["build", [(i["kind"], i["m"], len(i["keys"])) for i in s["inputs"]], len(s["outputs"])])
        else:
            out.append({k: v for k, v in s.items() if k not in ("bytes", "seed")})
    return jdump([cfg["network"], [k["compressed"] for k in cfg["keys"]], out])


def fingerprint(plan, v):
    d = v.get("detail") or {}
    return "%s: net=%s kind=%s ops=%s" % (v["class"], plan["config"]["network"], d.get("kind", "-"),
                                          ",".join(s.get("op", "?") + (":" + s["kind"] if s.get("op") == "tamper" else "")
                                                   for s in plan["steps"]))


def simplify(plan):
    b = plan["steps"][0] if plan["steps"] and plan["steps"][0].get("op") == "build" else None
    if b is not None and len(b["outputs"]) > 1:
        for j in range(len(b["outputs"])):
            c = copy.deepcopy(plan)
            del c["steps"][0]["outputs"][j]
            yield c
    if b is not None and len(b["inputs"]) > 1:
        for j in range(len(b["inputs"])):
            c = copy.deepcopy(plan)
            del c["steps"][0]["inputs"][j]
            for s in c["steps"][1:]:
                if s.get("inputs"):
                    s["inputs"] = [x for x in s["inputs"] if x < len(c["steps"][0]["inputs"])]
            yield c
    for i, st in enumerate(plan["steps"]):
        if st.get("op") == "sign" and len(st["keys"]) > 1:
            for j in range(len(st["keys"])):
                c = copy.deepcopy(plan)
                del c["steps"][i]["keys"][j]
                yield c
