"""S-HD: hierarchical wallets with long-lived nodes, watch-only peers and a key database (C09).

Parties: a wallet holding a private root, watch-only peers that receive extended-key *text*
over the (simulated) wire, an Electrum-style wallet pair, and a Keychain over a SQLite
connection proxy that can fail statements and crash before commit.
Real: BIP32Node/BIP49Node/BIP84Node, bip32.py, subpaths.py, ElectrumWallet, ParseAPI.bip32/49/84,
hierarchical_key, Keychain.  Stub: parties, SQLite faults.
"""
import hashlib

from dsim.kernel.core import Abort, HarnessError, jdump
from dsim.models import bip32 as mb
from dsim.models import ec as mec
from dsim.seams.simsqlite import SimConnection

NAME = "hd"
PROPS = ["C09"]
COMPONENTS = {
    "real": ["pycoin.key.BIP32Node/BIP49Node/BIP84Node (sub-key cache)", "pycoin.key.bip32", "pycoin.key.subpaths",
             "pycoin.key.electrum.ElectrumWallet", "network.parse.bip32/bip49/bip84/hierarchical_key",
             "pycoin.key.Keychain on sqlite3 (in-memory) through a fault-injecting connection proxy",
             "secp256k1 production generator (OpenSSL-accelerated)"],
    "stub": ["wallet / watch-only parties", "the wire carrying extended-key text", "SQLite statement faults and crash"],
}
RULE = ("plans = seed x network x bip32/49/84 variant x derivation histories on long-lived nodes (path spellings, "
        "mixed as_private, repeats) x export/import between parties x keychain add/commit/crash/fault schedules; "
        "non-trivial iff the run re-derived on a node with a warm cache, crossed the wire, refused a hardened-from-public, "
        "or crashed/faulted the key database")
FAULT_KINDS = ["db_statement_error", "db_crash_before_commit", "db_commit_error", "secrets_cleared"]
PROBES = ["warm_cache_rederive", "cache_key_other_as_private", "hardened_from_public_refused", "index>=2^24", "index=2^31-1",
          "depth>=5", "wire_roundtrip_private", "wire_roundtrip_public", "range_expansion", "children_iter", "fresh_rebuild",
          "electrum_commutation", "electrum_buffer_reused", "numeric_hardened_index_refused", "keychain_lookup_resolved", "keychain_lookup_absent_after_crash", "variant_bip49",
          "variant_bip84", "network_non_btc", "known_version_bytes"]

_NETS = None


def networks(variant="bip32"):
    """network codes that define the text prefixes of this variant (probed once per process)"""
    global _NETS
    if _NETS is None:
        from pycoin.networks.registry import network_codes, network_for_netcode
        _NETS = {"bip32": [], "bip49": [], "bip84": []}
        for code in sorted(network_codes()):
            if "GRS" in code:
                continue  # groestlcoin_hash is not installed: these networks cannot produce any text
            try:
                net = network_for_netcode(code)
                node = net.keys.bip32_seed(b"probe")
            except Exception:
                continue
            blob = b"\0\0\0\0" + node.serialize(as_private=True)
            for v, f in (("bip32", net.keys.bip32_deserialize), ("bip49", net.keys.bip49_deserialize),
                         ("bip84", net.keys.bip84_deserialize)):
                try:
                    f(blob).hwif(as_private=True)
                    f(blob).hwif(as_private=False)
                except TypeError:
                    continue  # prefix not defined on this network
                except Exception:
                    pass
                _NETS[v].append(code)
    return _NETS[variant]


# ---------------------------------------------------------------------------------------------
# planning
# ---------------------------------------------------------------------------------------------

def _index(r):
    return r.weighted([(0, 3), (1, 3), (2, 1), ((1 << 24) - 1, 1), (1 << 24, 1), ((1 << 31) - 1, 1),
                       (r.between(0, 20), 6), (r.between(0, (1 << 31) - 1), 3)])


SHAPED_SEEDS = {
    "master_k": ["0c69855de9d4dee7236192d912edb234", "34e01636560fc86bee65af2b5abdec94", "0baee68ea52a774ad2d8259daf68413e"],
    "child0H_k": ["4d206614297633b2da9534ffaed059e4", "11042a15b3369ceddf6e4c83a0cffa1c", "6ea92adc01f3d4e648ddc78fc85e265d"],
    "child0_k": ["d86deefbbd065c9b14c659ba47243a3c", "3c96dc5b59df90be5c0285a4ab050802", "dde6bba9db0abcf2c2db88cf34c72add"],
    "master_x": ["47d8992853e9dc1edae4ce1355def739", "d50e4877a7d49681ae7b31ffc2ef6985", "3a4dcfccb9c238cfcf51a2e22ae4484d"],
    "child0_x": ["fb7d67fd3ebecf4a2465b20715c03f3c", "7174c250df061879877cd6d27865f26c", "47e68a76662500d1ad000627a3b71b7b"],
}


def _path(r, maxlen, allow_hard):
    n = r.between(0 if r.chance(0.1) else 1, maxlen)
    return [[_index(r), bool(allow_hard and r.chance(0.35))] for _ in range(n)]


def gen_plan(rng, tier, index, config=None):
    variant = rng.weighted([("bip32", 6), ("bip49", 2), ("bip84", 2)])
    nets = networks(variant)
    net = config or rng.weighted([("BTC", 40), ("XTN", 10), (rng.pick(nets), 50)])
    r = rng.fork("ops")
    seed = r.bytes(r.pick([16, 32, 64, 1, 5]))
    shaped = None
    if r.chance(0.12):
        # seeds found once with the model: the master key, its child 0H / 0, or their public x start with a zero byte
        # (1 in 256 under random seeds; BIP32 test vector 3 is about exactly this)
        shaped = r.pick(sorted(SHAPED_SEEDS))
        seed = bytes.fromhex(r.pick(SHAPED_SEEDS[shaped]))
    steps = [{"op": "root", "id": "n0", "seed": seed.hex()}]
    nodes = {"n0": True}   # id -> is_private (planner-side knowledge)
    nid = [1]
    nsteps = r.between(5, 30 if tier == "thorough" else 18)
    spell = r.pick(["H", "p", "'", "mixed"])
    have_kc = False
    el = False

    def new_id():
        s = "n%d" % nid[0]
        nid[0] += 1
        return s

    recent = []
    if shaped is not None:
        # go through the node with the short key at once: hardened and normal children of it, by path and by subkey()
        first = {"master_k": [r.pick([0, 1, 0x7FFFFFFF]), r.chance(0.6)], "master_x": [r.pick([0, 1]), False],
                 "child0H_k": [0, True], "child0_k": [0, False], "child0_x": [0, False]}[shaped]
        path = [first] + ([[r.pick([0, 1, 2]), r.chance(0.5)]] if r.chance(0.7) else [])
        steps.append({"op": "derive", "src": "n0", "dst": new_id(), "path": path, "spell": spell, "via": "path", "pub_suffix": False})
        nodes[steps[-1]["dst"]] = True
        st_ = {"op": "export", "src": steps[-1]["dst"], "dst": new_id(), "as_private": True, "parser": "variant"}
        nodes[st_["dst"]] = True
        steps.append(st_)
    while len(steps) < nsteps:
        op = r.weighted([("derive", 10), ("rederive", 4), ("public_copy", 2), ("export", 4), ("children", 1),
                         ("subkeys", 2), ("fresh", 2), ("hfp", 2), ("numhard", 1.5), ("kc", 14 if have_kc else 4), ("electrum", 1)])
        src = r.pick(sorted(nodes))
        priv = nodes[src]
        if op == "derive":
            path = _path(r, 5 if r.chance(0.8) else 8, priv)
            via = r.pick(["path", "path", "subkey"])
            st = {"op": "derive", "src": src, "dst": new_id(), "path": path, "spell": spell, "via": via}
            if via == "path":
                st["pub_suffix"] = r.chance(0.15)
                dst_priv = priv and not st["pub_suffix"]
            else:
                # per-hop as_private argument: None = default
                aps = []
                p = priv
                for i, h in path:
                    if not p:
                        h = False
                    ap = r.pick([None, None, True, False]) if p else r.pick([None, False])
                    aps.append(ap)
                    if ap is False:
                        p = False
                st["as_private"] = aps
                # hardened hops after going public are impossible: make them normal
                p = priv
                for k, (i, h) in enumerate(path):
                    if not p:
                        path[k][1] = False
                    if aps[k] is False:
                        p = False
                dst_priv = p
            nodes[st["dst"]] = dst_priv
            steps.append(st)
            recent.append(st)
            if via == "subkey" and priv and path and path[0][1] and st["as_private"][0] is False and r.chance(0.5):
                # the public half of a hardened child was asked of a private node; now its watch-only copy is asked for
                # the same hardened child: that must still be refused
                pc = new_id()
                steps.append({"op": "public_copy", "src": src, "dst": pc})
                nodes[pc] = False
                steps.append({"op": "hfp", "src": pc, "i": path[0][0], "then": _index(r), "via": r.pick(["subkey", "path"])})
            if via == "subkey" and priv and len(path) == 1 and r.chance(0.25):
                # cache pressure: many other children of the same node are derived, then the same child is asked for again
                # by another route (private where it was public, by path where it was by subkey)
                i0 = path[0][0]
                lo = (i0 + 1 + r.below(50)) % ((1 << 31) - 200)
                cnt = r.pick([3, 20, 63, 64, 65, 70, 130])
                steps.append({"op": "subkeys", "src": src, "comps": [[[lo, lo + cnt - 1, False]]], "spell": "H"})
                again = {"op": "derive", "src": src, "dst": new_id(), "path": [[i0, path[0][1]]], "spell": spell, "via": "path", "pub_suffix": False}
                nodes[again["dst"]] = True
                steps.append(again)
                recent.append(again)
        elif op == "rederive" and recent:
            old = r.pick(recent)
            st = dict(old)
            st["dst"] = new_id()
            st["rederive"] = True
            if r.chance(0.5) and st["via"] == "path":
                st["spell"] = r.pick(["H", "p", "'"])
            nodes[st["dst"]] = nodes[old["dst"]]
            steps.append(st)
        elif op == "public_copy":
            st = {"op": "public_copy", "src": src, "dst": new_id()}
            nodes[st["dst"]] = False
            steps.append(st)
        elif op == "export":
            asp = priv and r.chance(0.5)
            st = {"op": "export", "src": src, "dst": new_id(), "as_private": asp,
                  "parser": r.pick(["variant", "variant", "hierarchical_key"])}
            nodes[st["dst"]] = asp
            steps.append(st)
        elif op == "children":
            steps.append({"op": "children", "src": src, "max_level": r.between(0, 3), "start": _index(r) % ((1 << 31) - 5),
                          "hardened": bool(priv and r.chance(0.5))})
        elif op == "subkeys":
            comps = []
            for _ in range(r.between(1, 3)):
                alts = []
                for _ in range(r.between(1, 2)):
                    lo = r.between(0, 50)
                    hi = lo + r.between(0, 2) if r.chance(0.6) else lo
                    alts.append([lo, hi, bool(priv and r.chance(0.3))])
                comps.append(alts)
            steps.append({"op": "subkeys", "src": src, "comps": comps, "spell": r.pick(["H", "p", "'"])})
        elif op == "fresh":
            steps.append({"op": "fresh", "src": src})
        elif op == "numhard":
            steps.append({"op": "numhard", "src": src, "i": r.pick([1 << 31, (1 << 31) + 5, (1 << 32) - 1, (1 << 31) + r.bits(20)]),
                          "via": r.pick(["subkey", "path"])})
        elif op == "hfp":
            pubs = [k for k, v in nodes.items() if not v]
            if not pubs:
                continue
            s = r.pick(sorted(pubs))
            steps.append({"op": "hfp", "src": s, "i": _index(r), "then": _index(r), "via": r.pick(["subkey", "path"])})
        elif op == "kc":
            if not have_kc:
                steps.append({"op": "kc_new"})
                if r.chance(0.6):
                    # (otherwise the wallet registers paths and looks keys up before it unlocks its root)
                    steps.append({"op": "kc_add_secret", "src": "n0"})
                have_kc = True
            k = r.weighted([("add", 6), ("commit", 3), ("crash", 2), ("lookup", 6), ("fault", 2), ("clear", 1),
                            ("commit_fault", 1), ("add_secret", 2)])
            privs = sorted(k2 for k2, v in nodes.items() if v)
            if k == "add_secret":
                steps.append({"op": "kc_add_secret", "src": r.pick(privs) if privs and r.chance(0.3) else "n0"})
            elif k == "add":
                key = r.pick(privs) if privs else "n0"
                paths = [_path(r, 3, True) for _ in range(r.between(1, 4))]
                steps.append({"op": "kc_add_paths", "src": key, "paths": paths, "spell": r.pick(["H", "p", "'"]),
                              "how": r.pick(["add_key_paths", "add_keys_path"])})
            elif k == "commit":
                steps.append({"op": "kc_commit"})
            elif k == "crash":
                steps.append({"op": "kc_crash"})
            elif k == "fault":
                steps.append({"op": "kc_fault", "k": r.between(1, 4)})
            elif k == "commit_fault":
                steps.append({"op": "kc_commit_fault"})
            elif k == "clear":
                steps.append({"op": "kc_clear_secrets", "readd": r.chance(0.7)})
            else:
                steps.append({"op": "kc_lookup", "pick": r.between(0, 1000), "compressed": r.chance(0.8)})
        elif op == "electrum":
            steps.append({"op": "electrum", "mpk_buffer": r.pick([None, "bytes", "bytearray_reused"]), "k": r.between(1, mec.SECP256K1.n - 1),
                          "paths": [[r.between(0, 1000), r.pick([0, 1, None])] for _ in range(r.between(1, 3))]})
    return {"world": NAME, "config": {"name": "%s-%s" % (net, variant), "network": net, "variant": variant}, "steps": steps}


# ---------------------------------------------------------------------------------------------
# execution
# ---------------------------------------------------------------------------------------------

def _spell(path, spell, k=0):
    out = []
    for j, (i, h) in enumerate(path):
        if h:
            ch = spell if spell != "mixed" else "Hp'"[(j + k) % 3]
        else:
            ch = ""
        out.append("%d%s" % (i, ch))
    return "/".join(out)


def _mderive(mnode, path):
    """model derivation; returns None if an index is invalid per BIP32 (astronomically rare)"""
    cur = mnode
    for i, h in path:
        idx = i + (mb.HARD if h else 0)
        if cur["k"] is not None:
            cur = mb.ckd_priv(cur, idx)
        else:
            if h:
                raise HarnessError("plan asks hardened from public in model derivation")
            cur = mb.ckd_pub(cur, idx)
        if cur is None:
            return None
    return cur


class _World(object):
    pass


def _check_node(ctx, W, obj, m, what):
    """every observable field of a pycoin node against the model node"""
    try:
        got = {
            "k": obj.secret_exponent(), "K": tuple(obj.public_pair()), "c": obj.chain_code(), "depth": obj.tree_depth(),
            "fp": obj.parent_fingerprint(), "idx": obj.child_index(), "fingerprint": obj.fingerprint(),
            "pub_text": obj.hwif(as_private=False),
        }
        if m["k"] is not None:
            got["prv_text"] = obj.hwif(as_private=True)
        # as_text is the other public name of the text form
        got["as_text"] = (obj.as_text(as_private=False), obj.as_text(as_private=True) if m["k"] is not None else None)
    except Exception as e:
        ctx.violate("C09", "node-accessor-raised", {"what": what, "exc": type(e).__name__, "msg": str(e)[:160]})
        return False
    exp = {"k": m["k"], "K": m["K"], "c": m["c"], "depth": m["depth"], "fp": m["fp"], "idx": m["idx"],
           "fingerprint": mb.fingerprint(m)}
    ok = True
    for f in ("k", "K", "c", "depth", "fp", "idx", "fingerprint"):
        if got[f] != exp[f]:
            ctx.violate("C09", "derived-field-mismatch", {"what": what, "field": f, "got": got[f], "expected": exp[f]})
            ok = False
            break
    # text: payload must be the BIP32 74-byte serialisation; version bytes checked when the model knows them
    for asp, key in ((False, "pub_text"), (True, "prv_text")):
        if key not in got:
            continue
        try:
            raw = mb.b58check_decode(got[key])
        except Exception:
            ctx.violate("C09", "text-not-base58check", {"what": what, "text": got[key]})
            ok = False
            continue
        if raw[4:] != mb.serialize74(m, asp) or len(raw) != 78:
            ctx.violate("C09", "text-payload-mismatch", {"what": what, "as_private": asp, "got": raw[4:].hex(),
                                                         "expected": mb.serialize74(m, asp).hex()})
            ok = False
        ver = mb.VERSIONS.get((W.netcode, W.variant))
        if ver is not None:
            ctx.probe("known_version_bytes")
            if raw[:4].hex() != ver[0 if asp else 1]:
                ctx.violate("C09", "text-version-bytes", {"what": what, "got": raw[:4].hex(), "expected": ver[0 if asp else 1]})
                ok = False
    if got["as_text"] != (got["pub_text"], got.get("prv_text")):
        ctx.violate("C09", "as-text-differs-from-hwif", {"what": what, "as_text": got["as_text"][0], "hwif": got["pub_text"]})
        ok = False
    ctx.obs("node", what, got.get("pub_text"))
    return ok


def execute(plan, ctx):
    from pycoin.networks.registry import network_for_netcode
    cfg = plan["config"]
    W = _World()
    W.netcode = cfg["network"]
    W.variant = cfg["variant"]
    try:
        W.net = network_for_netcode(W.netcode)
    except Exception as e:
        raise HarnessError("network %s unavailable: %r" % (W.netcode, e))
    if W.netcode != "BTC":
        ctx.probe("network_non_btc")
    if W.variant == "bip49":
        ctx.probe("variant_bip49")
    elif W.variant == "bip84":
        ctx.probe("variant_bip84")
    W.objs = {}     # id -> pycoin node
    W.models = {}   # id -> model node
    W.abs = {}      # id -> (seed hex, absolute path [[i,h]...], is_private)
    W.derived_before = set()
    W.kc = None
    for i, st in enumerate(plan["steps"]):
        ctx.step = i
        ctx.steps_run += 1
        f = _OPS.get(st.get("op"))
        if f is not None:
            f(ctx, W, st)


def _to_variant(W, node, as_private):
    if W.variant == "bip32":
        return node
    blob = b"\0\0\0\0" + node.serialize(as_private=as_private)
    f = W.net.keys.bip49_deserialize if W.variant == "bip49" else W.net.keys.bip84_deserialize
    return f(blob)


def _op_root(ctx, W, st):
    seed = bytes.fromhex(st["seed"])
    m = mb.master(seed)
    if m is None:
        return
    try:
        node = _to_variant(W, W.net.keys.bip32_seed(seed), True)
    except Exception as e:
        ctx.violate("C09", "root-construction-raised", {"exc": type(e).__name__, "msg": str(e)[:160]})
        raise Abort()
    W.objs[st["id"]] = node
    W.models[st["id"]] = m
    W.abs[st["id"]] = (st["seed"], [], True)
    _check_node(ctx, W, node, m, "root")


def _op_derive(ctx, W, st):
    src = W.objs.get(st["src"])
    if src is None:
        return
    msrc = W.models[st["src"]]
    seed, apath, _ = W.abs[st["src"]]
    path = st["path"]
    if msrc["k"] is None and any(h for _, h in path):
        return  # sub-sequence of a plan made this impossible; no-op
    for i, h in path:
        if i >= (1 << 24):
            ctx.probe("index>=2^24")
        if i == (1 << 31) - 1:
            ctx.probe("index=2^31-1")
    key = (st["src"], jdump(path))
    if key in W.derived_before or st.get("rederive"):
        ctx.probe("warm_cache_rederive")
        ctx.nontrivial = True
    W.derived_before.add(key)
    try:
        if st["via"] == "path":
            text = _spell(path, st["spell"], ctx.step) + (".pub" if st.get("pub_suffix") else "")
            node = src.subkey_for_path(text)
            m = _mderive(msrc, path)
            if m is not None and st.get("pub_suffix"):
                m = mb.neuter(m)
        else:
            node = src
            m = msrc
            for (i, h), ap in zip(path, st["as_private"]):
                if m["k"] is None and (h or ap):
                    return
                if ap is None:
                    node = node.subkey(i=i, is_hardened=h)
                else:
                    if ap is False and m["k"] is not None:
                        ctx.probe("cache_key_other_as_private")
                    node = node.subkey(i=i, is_hardened=h, as_private=ap)
                m = _mderive(m, [[i, h]])
                if m is None:
                    return
                if ap is False:
                    m = mb.neuter(m)
    except Exception as e:
        ctx.violate("C09", "derivation-raised", {"path": path, "via": st["via"], "exc": type(e).__name__, "msg": str(e)[:160]})
        return
    if m is None:
        return
    if m["depth"] >= 5:
        ctx.probe("depth>=5")
    ctx.sig("%s|%s|d%d|%s|%s|%s" % (W.variant, st["via"], m["depth"], "prv" if m["k"] is not None else "pub",
                                    "".join("H" if h else "n" for _, h in path), "warm" if st.get("rederive") else "cold"))
    W.objs[st["dst"]] = node
    W.models[st["dst"]] = m
    W.abs[st["dst"]] = (seed, apath + path, m["k"] is not None)
    _check_node(ctx, W, node, m, "derive")
    # commutation with going public, on fresh objects: public parent derives the public half
    if not any(h for _, h in path):
        try:
            pub = src.public_copy()
            pnode = pub.subkey_for_path(_spell(path, "H")) if path else pub
            if tuple(pnode.public_pair()) != m["K"] or pnode.chain_code() != m["c"] or pnode.secret_exponent() is not None:
                ctx.violate("C09", "public-derivation-mismatch", {"path": path})
        except Exception as e:
            ctx.violate("C09", "derivation-raised", {"path": path, "via": "public_copy", "exc": type(e).__name__, "msg": str(e)[:160]})


def _op_public_copy(ctx, W, st):
    src = W.objs.get(st["src"])
    if src is None:
        return
    try:
        node = src.public_copy()
    except Exception as e:
        ctx.violate("C09", "derivation-raised", {"via": "public_copy", "exc": type(e).__name__, "msg": str(e)[:160]})
        return
    m = mb.neuter(W.models[st["src"]])
    W.objs[st["dst"]] = node
    W.models[st["dst"]] = m
    seed, apath, _ = W.abs[st["src"]]
    W.abs[st["dst"]] = (seed, apath, False)
    _check_node(ctx, W, node, m, "public_copy")


def _op_export(ctx, W, st):
    """the wallet sends extended-key text; the peer parses it with its own network object"""
    src = W.objs.get(st["src"])
    if src is None:
        return
    msrc = W.models[st["src"]]
    asp = bool(st["as_private"]) and msrc["k"] is not None
    try:
        text = src.hwif(as_private=asp)
    except Exception as e:
        ctx.violate("C09", "export-raised", {"exc": type(e).__name__, "msg": str(e)[:160]})
        return
    parser = st.get("parser", "variant")
    try:
        if parser == "variant":
            got = getattr(W.net.parse, W.variant)(text)
        elif parser == "hierarchical_key":
            got = W.net.parse.hierarchical_key(text)
        else:
            got = W.net.parse(text)
    except Exception as e:
        ctx.violate("C09", "import-raised", {"parser": parser, "text": text, "exc": type(e).__name__, "msg": str(e)[:160]})
        return
    ctx.obs("wire", text, parser)
    ctx.nontrivial = True
    ctx.probe("wire_roundtrip_private" if asp else "wire_roundtrip_public")
    if got is None:
        ctx.violate("C09", "text-not-parsed-back", {"parser": parser, "text": text, "network": W.netcode, "variant": W.variant})
        return
    m = msrc if asp else mb.neuter(msrc)
    # the parsed object must be of the same family (its text form must be the text we sent)
    try:
        back = got.hwif(as_private=asp)
    except Exception as e:
        ctx.violate("C09", "import-raised", {"parser": parser, "exc": type(e).__name__, "msg": str(e)[:160]})
        return
    if back != text:
        ctx.violate("C09", "text-roundtrip-mismatch", {"parser": parser, "sent": text, "reexported": back})
    if not hasattr(got, "chain_code"):
        ctx.violate("C09", "text-parsed-as-other-kind", {"parser": parser, "type": type(got).__name__})
        return
    W.objs[st["dst"]] = got
    W.models[st["dst"]] = m
    seed, apath, _ = W.abs[st["src"]]
    W.abs[st["dst"]] = (seed, apath, asp)
    _check_node(ctx, W, got, m, "import")


def _op_children(ctx, W, st):
    src = W.objs.get(st["src"])
    if src is None:
        return
    msrc = W.models[st["src"]]
    hard = st["hardened"] and msrc["k"] is not None
    ctx.probe("children_iter")
    try:
        kids = list(src.children(max_level=st["max_level"], start_index=st["start"], include_hardened=hard))
    except Exception as e:
        ctx.violate("C09", "derivation-raised", {"via": "children", "exc": type(e).__name__, "msg": str(e)[:160]})
        return
    exp = []
    for i in range(st["start"], st["start"] + st["max_level"] + 1):
        exp.append([i, False])
        if hard:
            exp.append([i, True])
    if len(kids) != len(exp):
        ctx.violate("C09", "children-count", {"got": len(kids), "expected": len(exp)})
        return
    for node, (i, h) in zip(kids, exp):
        m = _mderive(msrc, [[i, h]])
        if m is None:
            continue
        if not _check_node(ctx, W, node, m, "children"):
            break


def _op_subkeys(ctx, W, st):
    src = W.objs.get(st["src"])
    if src is None:
        return
    msrc = W.models[st["src"]]
    comps = st["comps"]
    if msrc["k"] is None and any(h for alts in comps for _, _, h in alts):
        return
    ch = st["spell"]
    text = "/".join(",".join(("%d-%d" % (lo, hi) if hi != lo else "%d" % lo) + (ch if h else "") for lo, hi, h in alts)
                    for alts in comps)
    # expected expansion: cartesian product, first component most significant
    lists = []
    for alts in comps:
        l = []
        for lo, hi, h in alts:
            for v in range(lo, hi + 1):
                l.append([v, h])
        lists.append(l)
    exp = [[]]
    for l in lists:
        exp = [e + [x] for e in exp for x in l]
    ctx.probe("range_expansion")
    try:
        got = list(src.subkeys(text))
    except Exception as e:
        ctx.violate("C09", "derivation-raised", {"via": "subkeys", "range": text, "exc": type(e).__name__, "msg": str(e)[:160]})
        return
    if len(got) != len(exp):
        ctx.violate("C09", "range-expansion-count", {"range": text, "got": len(got), "expected": len(exp)})
        return
    for node, path in zip(got, exp):
        m = _mderive(msrc, path)
        if m is None:
            continue
        if not _check_node(ctx, W, node, m, "subkeys:" + text):
            break


def _op_fresh(ctx, W, st):
    """a process that never derived anything before must report the same node"""
    obj = W.objs.get(st["src"])
    if obj is None:
        return
    seed, apath, is_priv = W.abs[st["src"]]
    m = W.models[st["src"]]
    ctx.probe("fresh_rebuild")
    try:
        root = _to_variant(W, W.net.keys.bip32_seed(bytes.fromhex(seed)), True)
        node = root.subkey_for_path(_spell(apath, "H")) if apath else root
        if not is_priv:
            node = node.public_copy()
    except Exception as e:
        ctx.violate("C09", "derivation-raised", {"via": "fresh", "exc": type(e).__name__, "msg": str(e)[:160]})
        return
    _check_node(ctx, W, node, m, "fresh")
    try:
        same = (node.hwif(as_private=is_priv) == obj.hwif(as_private=is_priv)
                and node.fingerprint() == obj.fingerprint())
    except Exception as e:
        ctx.violate("C09", "node-accessor-raised", {"what": "fresh", "exc": type(e).__name__})
        return
    if not same:
        ctx.violate("C09", "history-dependent-node", {"path": apath})


def _op_hfp(ctx, W, st):
    src = W.objs.get(st["src"])
    if src is None or W.models[st["src"]]["k"] is not None:
        return
    msrc = W.models[st["src"]]
    try:
        if st["via"] == "subkey":
            r = src.subkey(i=st["i"], is_hardened=True)
        else:
            r = src.subkey_for_path("%dH" % st["i"])
        ctx.violate("C09", "hardened-from-public-not-refused", {"i": st["i"], "returned": type(r).__name__})
    except Exception as e:
        ctx.probe("hardened_from_public_refused")
        ctx.nontrivial = True
        ctx.obs("hfp", type(e).__name__)
        from pycoin.key.BIP32Node import PublicPrivateMismatchError
        if not isinstance(e, PublicPrivateMismatchError):
            ctx.violate("C09", "hardened-from-public-wrong-error", {"exc": type(e).__name__, "msg": str(e)[:160]})
    # the refusal must not poison later normal derivations with the same / another index
    for i in (st["i"], st["then"]):
        m = _mderive(msrc, [[i, False]])
        if m is None:
            continue
        try:
            node = src.subkey(i=i)
        except Exception as e:
            ctx.violate("C09", "derivation-raised", {"via": "after-refusal", "exc": type(e).__name__, "msg": str(e)[:160]})
            return
        _check_node(ctx, W, node, m, "after-refusal")


def _op_numhard(ctx, W, st):
    """a child number of 2^31 or more spelled as a plain number (no hardening marker): the node may refuse it; if it answers,
    the answer is the hardened child the standard defines for that child number - which a public-only node cannot produce"""
    src = W.objs.get(st["src"])
    if src is None:
        return
    msrc = W.models[st["src"]]
    i = st["i"]
    try:
        node = src.subkey(i=i) if st["via"] == "subkey" else src.subkey_for_path("%d" % i)
    except Exception as e:
        ctx.probe("numeric_hardened_index_refused")
        ctx.obs("numhard", type(e).__name__)
        return
    ctx.obs("numhard", "answered")
    if msrc["k"] is None:
        ctx.violate("C09", "hardened-from-public-not-refused", {"i": i, "spelling": "numeric", "via": st["via"]})
        return
    m = _mderive(msrc, [[i - (1 << 31), True]])
    if m is not None:
        _check_node(ctx, W, node, m, "numeric-hardened-index")


# -- key database --------------------------------------------------------------------------------

class _KC(object):
    def __init__(self):
        self.conn = SimConnection()
        self.kc = None
        self.committed = {}   # h160 -> (root id, path) rows durable
        self.pending = {}     # rows written, not committed
        self.uncertain = {}   # rows whose fate is unknown (fault in the middle)
        self.secrets = set()  # ids of private nodes currently added
        self.known = []       # [(h160c, h160u, model node)] everything ever added, for lookups


def _op_kc_new(ctx, W, st):
    from pycoin.key.Keychain import Keychain
    k = _KC()
    try:
        k.kc = Keychain(k.conn)
    except Exception as e:
        ctx.violate("C09", "keychain-raised", {"op": "new", "exc": type(e).__name__})
        return
    W.kc = k


def _op_kc_add_secret(ctx, W, st):
    k = W.kc
    node = W.objs.get(st["src"])
    if k is None or node is None or W.models[st["src"]]["k"] is None:
        return
    k.kc.add_secret(node)
    k.secrets.add(st["src"])


def _op_kc_add_paths(ctx, W, st):
    import sqlite3
    k = W.kc
    node = W.objs.get(st["src"])
    if k is None or node is None:
        return
    msrc = W.models[st["src"]]
    if msrc["k"] is None:
        return
    rows = []
    texts = []
    for path in st["paths"]:
        m = _mderive(msrc, path)
        if m is None:
            return
        sec_c = mb.ser_p(m["K"])
        sec_u = b"\4" + m["K"][0].to_bytes(32, "big") + m["K"][1].to_bytes(32, "big")
        rows.append((mb.hash160(sec_c), mb.hash160(sec_u), m))
        texts.append(_spell(path, st["spell"]))
    armed = k.conn._fail_in is not None
    try:
        if st["how"] == "add_key_paths":
            k.kc.add_key_paths(node, texts)
        else:
            for t in texts:
                k.kc.add_keys_path([node], t)
        for (hc, hu, m) in rows:
            # the table is keyed by hash160 and rows go in with "insert or ignore": a key already registered (under
            # whatever root) keeps its first row
            if hc in k.uncertain:
                pass      # (whether an earlier, faulted insert left a row is unknown: so is who owns the row now)
            elif hc not in k.committed and hc not in k.pending:
                k.pending[hc] = (st["src"], m)
            k.known.append((hc, hu, m, st["src"]))
    except sqlite3.OperationalError:
        ctx.fault("db_statement_error")
        ctx.nontrivial = True
        for (hc, hu, m) in rows:
            if hc not in k.committed and hc not in k.pending:
                k.uncertain[hc] = (st["src"], m)
            k.known.append((hc, hu, m, st["src"]))
    except Exception as e:
        ctx.violate("C09", "keychain-raised", {"op": "add_paths", "exc": type(e).__name__, "msg": str(e)[:160]})


def _op_kc_commit(ctx, W, st):
    import sqlite3
    k = W.kc
    if k is None:
        return
    try:
        k.kc.commit()
        k.committed.update(k.pending)
        k.pending = {}
    except sqlite3.OperationalError:
        ctx.fault("db_commit_error")
        ctx.nontrivial = True


def _op_kc_commit_fault(ctx, W, st):
    if W.kc is not None:
        W.kc.conn._fail_commit = True


def _op_kc_fault(ctx, W, st):
    if W.kc is not None:
        W.kc.conn.arm(st["k"])


def _op_kc_crash(ctx, W, st):
    from pycoin.key.Keychain import Keychain
    k = W.kc
    if k is None:
        return
    k.conn.crash()
    ctx.fault("db_crash_before_commit")
    ctx.nontrivial = True
    lost = dict(k.pending)
    k.pending = {}
    # rows of uncertain fate that were not committed are gone as well
    k.lost = getattr(k, "lost", {})
    k.lost.update(lost)
    for h in list(k.uncertain):
        if h not in k.committed:
            k.lost[h] = k.uncertain.pop(h)
    try:
        k.kc = Keychain(k.conn)
    except Exception as e:
        ctx.violate("C09", "keychain-raised", {"op": "restart", "exc": type(e).__name__, "msg": str(e)[:160]})
        W.kc = None
        return
    # secrets are not durable: the restarted wallet adds its root again
    for sid in sorted(k.secrets):
        node = W.objs.get(sid)
        if node is not None:
            k.kc.add_secret(node)


def _op_kc_clear(ctx, W, st):
    k = W.kc
    if k is None:
        return
    k.kc.clear_secrets()
    ctx.fault("secrets_cleared")
    had = sorted(k.secrets)
    k.secrets = set()
    if st.get("readd"):
        for sid in had:
            node = W.objs.get(sid)
            if node is not None:
                k.kc.add_secret(node)
                k.secrets.add(sid)


def _op_kc_lookup(ctx, W, st):
    import sqlite3
    k = W.kc
    if k is None or not k.known:
        return
    # biased to recent rows: pick among the last few added
    hc, hu, m, sid = k.known[-1 - (st["pick"] % min(len(k.known), 6))]
    h = hc if st["compressed"] else hu
    lost = getattr(k, "lost", {})
    try:
        r = k.kc.get(h)
    except sqlite3.OperationalError:
        ctx.fault("db_statement_error")
        return
    except Exception as e:
        ctx.violate("C09", "keychain-raised", {"op": "get", "exc": type(e).__name__, "msg": str(e)[:160]})
        return
    ctx.obs("kc_get", h.hex(), None if r is None else r[0])
    stored = k.pending.get(hc) or k.committed.get(hc)
    # (the row that answers is the first one registered for this key: it is that row's root that must be unlocked)
    have_secret = (stored[0] if stored else sid) in k.secrets
    if r is not None:
        # whatever else happened, a resolved lookup must be the right key
        try:
            ok = (r[0] == m["k"] and tuple(r[1]) == m["K"] and r[2] == st["compressed"])
        except Exception:
            ok = False
        if not ok:
            ctx.violate("C09", "keychain-wrong-key", {"h160": h.hex(), "got": repr(r)[:120], "expected_k": m["k"]})
        else:
            ctx.probe("keychain_lookup_resolved")
        return
    # r is None: allowed unless the row is known durable/pending, its secret is present, and no fault is in the way
    row_present = hc in k.committed or hc in k.pending
    if row_present and have_secret and hc not in k.uncertain:
        # only the compressed hash160 is stored in the table; the uncompressed one is reachable
        # only after the compressed one was looked up (cache) - nothing is promised about it
        if st["compressed"]:
            ctx.violate("C09", "keychain-lost-key", {"h160": h.hex(), "why": "row stored and secret present but lookup failed"})
    elif hc in lost and hc not in k.committed and hc not in k.pending:
        ctx.probe("keychain_lookup_absent_after_crash")


def _op_electrum(ctx, W, st):
    Cv = mec.SECP256K1
    k = st["k"]
    try:
        prv = W.net.keys.electrum_private(master_private_key=k)
        pub = prv.public_copy()
    except Exception as e:
        ctx.violate("C09", "electrum-raised", {"exc": type(e).__name__, "msg": str(e)[:160]})
        return
    K = Cv.mul(k, Cv.G)
    mpk = K[0].to_bytes(32, "big") + K[1].to_bytes(32, "big")
    # a third, watch-only wallet built from the 64-byte master public key as it came off the wire: out of bytes, or out of
    # a read buffer that the caller reuses (overwrites) once the wallet exists
    watch = None
    buf = st.get("mpk_buffer")
    if buf:
        try:
            if buf == "bytearray_reused":
                ba = bytearray(mpk)
                watch = W.net.keys.electrum_public(master_public_key=ba)
                for i_ in range(len(ba)):
                    ba[i_] = 0xEE
                ctx.probe("electrum_buffer_reused")
            else:
                watch = W.net.keys.electrum_public(master_public_key=mpk)
        except Exception as e:
            ctx.violate("C09", "electrum-raised", {"exc": type(e).__name__, "msg": str(e)[:160], "when": "electrum_public"})
            return
    for n, c in st["paths"]:
        path = "%d" % n if c is None else "%d/%d" % (n, c)
        b = ("%d:%d:" % (n, 0 if c is None else c)).encode() + mpk
        off = int.from_bytes(hashlib.sha256(hashlib.sha256(b).digest()).digest(), "big")
        ek = (k + off) % Cv.n
        eK = Cv.add(Cv.mul(off, Cv.G), K)
        ctx.probe("electrum_commutation")
        try:
            a = prv.subkey(path)
            bb = pub.subkey_for_path(path)
            got = (a.secret_exponent(), tuple(a.public_pair()), bb.secret_exponent(), tuple(bb.public_pair()))
            if watch is not None:
                cc = watch.subkey(path)
                if (cc.secret_exponent(), tuple(cc.public_pair())) != (None, eK) and not (ek == 0 or eK is None):
                    ctx.violate("C09", "electrum-commutation", {"path": path, "wallet": "watch-only, from the 64-byte master public key",
                                                                "buffer": st.get("mpk_buffer"), "got": list(cc.public_pair()), "expected": list(eK)})
                if bytes(watch.master_public_key()) != mpk:
                    ctx.violate("C09", "electrum-master-public-key-changed", {"buffer": st.get("mpk_buffer")})
        except Exception as e:
            ctx.violate("C09", "electrum-raised", {"path": path, "exc": type(e).__name__, "msg": str(e)[:160]})
            continue
        ctx.obs("electrum", path, got[0])
        if ek == 0 or eK is None:
            continue
        if got != (ek, eK, None, eK):
            ctx.violate("C09", "electrum-commutation", {"path": path, "got": got, "expected": [ek, eK]})


_OPS = {"root": _op_root, "derive": _op_derive, "public_copy": _op_public_copy, "export": _op_export,
        "children": _op_children, "subkeys": _op_subkeys, "fresh": _op_fresh, "hfp": _op_hfp,
        "kc_new": _op_kc_new, "kc_add_secret": _op_kc_add_secret, "kc_add_paths": _op_kc_add_paths,
        "kc_commit": _op_kc_commit, "kc_commit_fault": _op_kc_commit_fault, "kc_fault": _op_kc_fault,
        "kc_crash": _op_kc_crash, "kc_clear_secrets": _op_kc_clear, "kc_lookup": _op_kc_lookup,
        "electrum": _op_electrum, "numhard": _op_numhard}


def normal_form(plan):
    return jdump([plan["config"], plan["steps"]])


def fingerprint(plan, v):
    d = v.get("detail") or {}
    return "%s: net=%s variant=%s ops=%s %s" % (v["class"], plan["config"]["network"], plan["config"]["variant"],
                                                ",".join(s.get("op", "?") for s in plan["steps"]),
                                                d.get("field", d.get("parser", "")))


def simplify(plan):
    import copy
    for i, st in enumerate(plan["steps"]):
        if st.get("op") == "derive" and len(st["path"]) > 1 and st["via"] == "path":
            for j in range(len(st["path"])):
                c = copy.deepcopy(plan)
                del c["steps"][i]["path"][j]
                yield c
        if st.get("op") == "kc_add_paths" and len(st["paths"]) > 1:
            for j in range(len(st["paths"])):
                c = copy.deepcopy(plan)
                del c["steps"][i]["paths"][j]
                yield c
    if plan["config"]["network"] != "BTC":
        c = copy.deepcopy(plan)
        c["config"]["network"] = "BTC"
        c["config"]["name"] = "BTC-" + c["config"]["variant"]
        yield c
    if plan["config"]["variant"] != "bip32":
        c = copy.deepcopy(plan)
        c["config"]["variant"] = "bip32"
        yield c
