"""Evidence and replay files, written by the check itself from measured counters only."""
import json
import os

from .core import jdump

ROOT = os.path.dirname(os.path.dirname(os.path.dirname(os.path.abspath(__file__))))
# the mutant self-test points checks at a scratch copy of the repository; their replays and evidence must not
# land in /verif
OUT = os.environ.get("VERIF_OUT_DIR") or ROOT


def _short_plan(plan, limit=40):
    p = {k: v for k, v in plan.items() if k != "steps"}
    steps = plan.get("steps", [])
    p["steps"] = steps[:limit]
    if len(steps) > limit:
        p["steps_omitted"] = len(steps) - limit
    s = jdump(p)
    if len(s) > 6000:
        p["steps"] = steps[:8]
        p["steps_omitted"] = len(steps) - 8
    return json.loads(jdump(p))


def write_replay(prop, seed, tier, rec, n):
    d = os.path.join(OUT, "replays")
    os.makedirs(d, exist_ok=True)
    plan = rec["plan"]
    path = os.path.join(d, "%s-%s-%d.json" % (prop, plan.get("run_seed", "0" * 8)[:12], n))
    body = {
        "format": 1, "property": prop, "world": rec["world"], "verif_seed": seed, "tier": tier,
        "run_seed": plan.get("run_seed"), "index": plan.get("index"),
        "pythonhashseed": os.environ.get("PYTHONHASHSEED"),
        "plan": plan,
        "plans": rec.get("plans"),
        "expect": {"class": rec["violation"]["class"], "at_step": rec["violation"]["step"],
                   "detail": json.loads(jdump(rec["violation"]["detail"]))},
        "fingerprint": rec["fingerprint"], "digest": rec["digest"],
        "shrunk_from_steps": rec["shrunk_from_steps"], "shrink": rec["shrink"],
        "faults": rec["faults"],
    }
    with open(path, "w") as f:
        f.write(json.dumps(json.loads(jdump(body)), indent=1))
    return path


def write(prop, tier, seed, totals, new_violations, known_seen, wall_s, other=None, harness=None):
    from dsim.kernel import runner
    d = os.path.join(OUT, "evidence")
    os.makedirs(d, exist_ok=True)
    runs = sum(t.get("runs", 0) for t in totals)
    distinct = sum(len(t.get("distinct", ())) for t in totals)
    faults, probes, configs, noteval = {}, {}, {}, {}
    samples = []
    per_world = {}
    components = {"real": [], "stub": []}
    rules = []
    for t in totals:
        w = runner.load_world(t["world"])
        for k, v in t.get("faults", {}).items():
            faults[k] = faults.get(k, 0) + v
        for k, v in t.get("probes", {}).items():
            probes[k] = probes.get(k, 0) + v
        for k, v in t.get("configs", {}).items():
            configs[t["world"] + ":" + k] = v
        for k, v in t.get("not_evaluated", {}).items():
            noteval[k] = noteval.get(k, 0) + v
        for p in t.get("samples", [])[:2]:
            samples.append(_short_plan(p))
        wall = max(t.get("wall_s", 0.0), 1e-9)
        per_world[t["world"]] = {
            "runs": t.get("runs", 0), "steps": t.get("steps", 0), "observations": t.get("obs", 0),
            "nontrivial_runs": t.get("nontrivial", 0), "distinct_nontrivial_plans": len(t.get("distinct", ())),
            "state_signatures": len(t.get("sigs", ())), "virtual_seconds": round(t.get("vtime", 0.0), 3),
            "first_index": t.get("first_index"), "last_index": t.get("last_index"),
            "wall_s": round(wall, 2), "runs_per_hour": int(t.get("runs", 0) / wall * 3600),
            "violation_counts_all_properties": t.get("viol_counts", {}),
        }
        for k in ("real", "stub"):
            for c in w.COMPONENTS.get(k, []):
                if c not in components[k]:
                    components[k].append(c)
        rules.append("%s: %s" % (t["world"], w.RULE))
        unreached = [k for k in getattr(w, "FAULT_KINDS", []) if not t.get("faults", {}).get(k)]
        per_world[t["world"]]["unreached_faults"] = unreached
        per_world[t["world"]]["unreached_probes"] = [k for k in getattr(w, "PROBES", []) if not t.get("probes", {}).get(k)]
    if not samples:
        samples = [{"note": "no non-trivial run in this batch"}]
    ev = {
        "property_id": prop, "tier": tier, "seed": seed, "level": "exploration",
        "coverage": {
            "evaluations": runs,
            "distinct_nontrivial": distinct,
            "rule": " || ".join(rules) + " || distinct = distinct normal forms (blake2b-64) of non-trivial plans; "
                    "run i of world w uses seed SHA256(VERIF_SEED|w|i)",
            "samples": samples,
            "worlds": per_world,
            "faults_fired": faults,
            "probes": probes,
            "configs": configs,
            "not_evaluated_runs": noteval,
            "components": components,
            "known_findings_seen": [{"class": kf["class"], "fingerprint": kf["fingerprint"]} for kf, _ in known_seen],
            "new_violations": [{"class": r["violation"]["class"], "fingerprint": r["fingerprint"],
                                "step": r["violation"]["step"]} for r in new_violations],
            "other_property_violations_in_shared_worlds": other or {},
        },
        "assumptions": [
            "sampled search: a clean batch is evidence, not proof",
            "reference models in /verif/dsim/models are correct (each is KAT-checked at start-up)",
            "pycoin is imported from /repo's working tree (asserted), Python %s" % os.sys.version.split()[0],
        ],
        "wall_s": round(wall_s, 2),
        "violations": len(new_violations),
    }
    if harness:
        ev["coverage"]["harness_error"] = harness
    with open(os.path.join(d, prop + ".json"), "w") as f:
        f.write(json.dumps(json.loads(jdump(ev)), indent=1))
