"""Histories that span several runs of one process.

A violation that shows only when other simulated runs were executed before it in the same
interpreter means the library keeps state between otherwise independent objects (module-level
tables, class attributes, mutable default arguments).  Such a history is replayed as a *list of
plans* executed in order in one fresh interpreter; the expectation applies to the last plan.
"""
import json
import os
import subprocess
import sys
import tempfile

from .core import has_violation, run_plan


def run_sequence(world, plans, keep_log=False):
    ctx = None
    for p in plans:
        ctx = run_plan(world, p, keep_log=keep_log)
    return ctx


def _child(argv):
    path = argv[0]
    from dsim.kernel import runner
    d = json.load(open(path))
    world = runner.load_world(d["world"])
    ctx = run_sequence(world, d["plans"])
    v = has_violation(ctx, d["property"], d["class"])
    print("MULTI-RESULT " + json.dumps({"reproduced": v is not None, "violation": v, "digest": ctx.digest()}, default=repr))


def in_fresh_process(world_name, plans, prop, cls, timeout=300):
    """execute the sequence in a fresh interpreter; returns dict(reproduced, violation, digest) or None"""
    fd, path = tempfile.mkstemp(prefix="verif-multi-", suffix=".json", dir="/dev/shm" if os.path.isdir("/dev/shm") else None)
    try:
        with os.fdopen(fd, "w") as f:
            json.dump({"world": world_name, "plans": plans, "property": prop, "class": cls}, f, default=repr)
        p = subprocess.run([sys.executable, "-m", "dsim.kernel.multi", path], capture_output=True, text=True, timeout=timeout)
        for line in p.stdout.splitlines():
            if line.startswith("MULTI-RESULT "):
                return json.loads(line[len("MULTI-RESULT "):])
        return None
    finally:
        try:
            os.unlink(path)
        except OSError:
            pass


def shrink_prefix(world_name, plans, prop, cls, budget_calls=14):
    """drop earlier plans while the last one still violates (fresh interpreter each time)"""
    best = list(plans)
    calls = 0
    # try the last plan with only one predecessor at a time first (most leaks need one earlier run)
    n = len(best)
    chunk = max(1, (n - 1) // 2)
    while chunk >= 1 and calls < budget_calls and len(best) > 1:
        i = 0
        progressed = False
        while i < len(best) - 1 and calls < budget_calls:
            cand = best[:i] + best[i + chunk:] if i + chunk < len(best) else best[:i] + best[-1:]
            if len(cand) == len(best):
                break
            calls += 1
            r = in_fresh_process(world_name, cand, prop, cls)
            if r and r["reproduced"]:
                best = cand
                progressed = True
            else:
                i += chunk
        if not progressed:
            chunk //= 2
    return best


if __name__ == "__main__":
    _child(sys.argv[1:])
