"""One integer decides everything.

run_seed(VERIF_SEED, world, i) -> 256-bit int; Rng(seed) is a thin wrapper over
random.Random with only the draws the planners use.  Nothing outside plan
generation may hold an Rng.
"""
import hashlib
import random


def run_seed(verif_seed, world, index):
    h = hashlib.sha256(("%d|%s|%d" % (verif_seed, world, index)).encode()).digest()
    return int.from_bytes(h, "big")


class Rng(object):
    def __init__(self, seed):
        self._r = random.Random(seed)
        self.draws = 0

    def below(self, n):
        self.draws += 1
        return self._r.randrange(n)

    def between(self, a, b):
        """inclusive"""
        self.draws += 1
        return self._r.randint(a, b)

    def chance(self, p):
        self.draws += 1
        return self._r.random() < p

    def real(self):
        self.draws += 1
        return self._r.random()

    def pick(self, seq):
        self.draws += 1
        return seq[self._r.randrange(len(seq))]

    def weighted(self, pairs):
        """pairs: [(item, weight)]"""
        total = sum(w for _, w in pairs)
        self.draws += 1
        x = self._r.random() * total
        for item, w in pairs:
            x -= w
            if x < 0:
                return item
        return pairs[-1][0]

    def shuffle(self, lst):
        # Fisher-Yates written out so the result does not depend on the stdlib version
        for i in range(len(lst) - 1, 0, -1):
            j = self.below(i + 1)
            lst[i], lst[j] = lst[j], lst[i]
        return lst

    def sample(self, seq, k):
        lst = list(seq)
        self.shuffle(lst)
        return lst[:k]

    def bits(self, n):
        self.draws += 1
        return self._r.getrandbits(n) if n > 0 else 0

    def bytes(self, n):
        return self.bits(8 * n).to_bytes(n, "big") if n else b""

    def subset(self, seq, p=0.5):
        return [x for x in seq if self.chance(p)]

    def fork(self, tag):
        """independent child stream (so adding draws in one planner section does not shift others)"""
        h = hashlib.sha256(("%d|%s" % (self.bits(128), tag)).encode()).digest()
        return Rng(int.from_bytes(h, "big"))
