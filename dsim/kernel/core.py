"""Execution context shared by all worlds.

A world module provides:
    NAME            str
    PROPS           list of property ids whose invariants it evaluates
    COMPONENTS      {"real": [...], "stub": [...]}
    RULE            str: what makes a run non-trivial / distinct
    gen_plan(rng, tier, index) -> plan  (JSON-able dict: {"world", "config", "steps": [...]})
    execute(plan, ctx) -> None          (no PRNG, no clock; records into ctx)
    fingerprint(plan, violation) -> str (canonical description of the minimised failure)
    simplify(plan) -> iterable of candidate smaller plans   (optional)
    normal_form(plan) -> str            (for distinct counting)

Execution never draws randomness and never reads a clock: everything that varies is in the plan.
"""
import contextlib
import hashlib
import os
import signal
import threading
import json


class Abort(Exception):
    """raised by a world to stop a run after a violation that makes later steps meaningless"""


class HarnessError(Exception):
    """the simulator or a reference model is broken; never a property violation"""


def jdump(obj):
    return json.dumps(obj, sort_keys=True, separators=(",", ":"), default=_default)


def _default(o):
    if isinstance(o, (bytes, bytearray)):
        return "b:" + bytes(o).hex()
    if isinstance(o, (set, frozenset)):
        return sorted(o, key=repr)
    if isinstance(o, tuple):
        return list(o)
    return repr(o)


class Ctx(object):
    def __init__(self, keep_log=False, props=None):
        self.keep_log = keep_log
        self.log = []
        self._h = hashlib.sha256()
        self.nobs = 0
        self.violations = []
        self.faults = {}
        self.probes = {}
        self.sigs = set()
        self.nontrivial = False
        self.step = -1
        self.steps_run = 0
        self.vtime = 0.0
        self.not_evaluated = {}  # prop -> reason (run aborted before it could be judged)
        self.props = props  # None = evaluate everything

    # -- recording ---------------------------------------------------------------------------
    def obs(self, tag, *items):
        s = jdump([self.step, tag, items])
        self._h.update(s.encode())
        self._h.update(b"\n")
        self.nobs += 1
        if self.keep_log:
            self.log.append(s)

    def digest(self):
        return self._h.hexdigest()

    def violate(self, prop, cls, detail=None):
        v = {"property": prop, "class": cls, "step": self.step, "detail": detail}
        self.obs("VIOLATION", prop, cls, detail)
        self.violations.append(v)
        return v

    def check(self, cond, prop, cls, detail=None):
        if not cond:
            self.violate(prop, cls, detail() if callable(detail) else detail)
        return cond

    def fault(self, kind, n=1):
        self.faults[kind] = self.faults.get(kind, 0) + n

    def probe(self, name, n=1):
        self.probes[name] = self.probes.get(name, 0) + n

    def sig(self, s):
        self.sigs.add(s)

    def wants(self, prop):
        return self.props is None or prop in self.props


def h64(s):
    if not isinstance(s, bytes):
        s = s.encode()
    return int.from_bytes(hashlib.blake2b(s, digest_size=8).digest(), "big")


class RunTimeout(BaseException):
    """raised by the per-run alarm (a BaseException: `except Exception` in a world does not swallow it)"""


RUN_TIMEOUT_S = float(os.environ.get("VERIF_RUN_TIMEOUT", "90"))


@contextlib.contextmanager
def run_deadline():
    """A library call that never returns is a finding, not a harness problem: one simulated run normally takes
    milliseconds to a few seconds, so a real-time alarm far beyond that (90 s) ends it.  Only the verdict
    "did not return" depends on the wall clock; everything a run that does return observes stays a function of the plan."""
    if threading.current_thread() is not threading.main_thread() or not hasattr(signal, "setitimer"):
        yield
        return

    def on_alarm(signum, frame):
        raise RunTimeout()

    old = signal.signal(signal.SIGALRM, on_alarm)
    signal.setitimer(signal.ITIMER_REAL, RUN_TIMEOUT_S)
    try:
        yield
    finally:
        signal.setitimer(signal.ITIMER_REAL, 0)
        signal.signal(signal.SIGALRM, old)


def execute_guarded(world, plan, ctx):
    """world.execute under the per-run alarm; Abort ends a run quietly, a timeout becomes a violation of the
    properties under evaluation (all the world's properties when none was singled out)"""
    try:
        with run_deadline():
            world.execute(plan, ctx)
    except Abort:
        pass
    except RunTimeout:
        for prop in (ctx.props or getattr(world, "PROPS", [])):
            ctx.violate(prop, "did-not-return", {"step": ctx.step, "after_seconds": RUN_TIMEOUT_S,
                                                "op": (plan["steps"][ctx.step].get("op") if 0 <= ctx.step < len(plan.get("steps", [])) else None)})


def run_plan(world, plan, keep_log=False):
    """execute one plan; returns ctx.  Exceptions other than Abort are harness errors unless the
    world converted them into violations itself."""
    ctx = Ctx(keep_log=keep_log)
    execute_guarded(world, plan, ctx)
    return ctx


def has_violation(ctx, prop, cls):
    for v in ctx.violations:
        if v["property"] == prop and v["class"] == cls:
            return v
    return None
