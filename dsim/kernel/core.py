"""Execution context shared by all worlds.

A world module provides:
    NAME            str
    PROPS           list of property ids whose invariants it evaluates
    COMPONENTS      {"real": [...], "stub": [...]}
    RULE            str: what makes a run non-trivial / distinct
    gen_plan(rng, tier, index) -> plan  (JSON-able dict: {"world", "config", "steps": [...]})
    execute(plan, ctx) -> None          (no PRNG, no clock; records into ctx)
    fingerprint(plan, violation) -> str (canonical description of the minimised failure)
    simplify(plan) -> iterable of candidate smaller plans   (optional)
    normal_form(plan) -> str            (for distinct counting)

Execution never draws randomness and never reads a clock: everything that varies is in the plan.
"""
import hashlib
import json


class Abort(Exception):
    """raised by a world to stop a run after a violation that makes later steps meaningless"""


class HarnessError(Exception):
    """the simulator or a reference model is broken; never a property violation"""


def jdump(obj):
    return json.dumps(obj, sort_keys=True, separators=(",", ":"), default=_default)


def _default(o):
    if isinstance(o, (bytes, bytearray)):
        return "b:" + bytes(o).hex()
    if isinstance(o, (set, frozenset)):
        return sorted(o, key=repr)
    if isinstance(o, tuple):
        return list(o)
    return repr(o)


class Ctx(object):
    def __init__(self, keep_log=False, props=None):
        self.keep_log = keep_log
        self.log = []
        self._h = hashlib.sha256()
        self.nobs = 0
        self.violations = []
        self.faults = {}
        self.probes = {}
        self.sigs = set()
        self.nontrivial = False
        self.step = -1
        self.steps_run = 0
        self.vtime = 0.0
        self.not_evaluated = {}  # prop -> reason (run aborted before it could be judged)
        self.props = props  # None = evaluate everything

    # -- recording ---------------------------------------------------------------------------
    def obs(self, tag, *items):
        s = jdump([self.step, tag, items])
        self._h.update(s.encode())
        self._h.update(b"\n")
        self.nobs += 1
        if self.keep_log:
            self.log.append(s)

    def digest(self):
        return self._h.hexdigest()

    def violate(self, prop, cls, detail=None):
        v = {"property": prop, "class": cls, "step": self.step, "detail": detail}
        self.obs("VIOLATION", prop, cls, detail)
        self.violations.append(v)
        return v

    def check(self, cond, prop, cls, detail=None):
        if not cond:
            self.violate(prop, cls, detail() if callable(detail) else detail)
        return cond

    def fault(self, kind, n=1):
        self.faults[kind] = self.faults.get(kind, 0) + n

    def probe(self, name, n=1):
        self.probes[name] = self.probes.get(name, 0) + n

    def sig(self, s):
        self.sigs.add(s)

    def wants(self, prop):
        return self.props is None or prop in self.props


def h64(s):
    if not isinstance(s, bytes):
        s = s.encode()
    return int.from_bytes(hashlib.blake2b(s, digest_size=8).digest(), "big")


def run_plan(world, plan, keep_log=False):
    """execute one plan; returns ctx.  Exceptions other than Abort are harness errors unless the
    world converted them into violations itself."""
    ctx = Ctx(keep_log=keep_log)
    try:
        world.execute(plan, ctx)
    except Abort:
        pass
    return ctx


def has_violation(ctx, prop, cls):
    for v in ctx.violations:
        if v["property"] == prop and v["class"] == cls:
            return v
    return None
