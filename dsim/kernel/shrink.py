"""ddmin over plan steps, then world-specific argument simplification.

Every world's step interpreter tolerates missing referents, so any sub-sequence of a plan is a
valid plan.  A candidate is kept iff executing it yields a violation of the same (property,
class).  No randomness, bounded by an execution-count and wall budget (wall only bounds effort,
it never changes what a given candidate does).
"""
import copy
import time

from .core import HarnessError, has_violation, run_plan


def _fails(world, plan, prop, cls):
    try:
        ctx = run_plan(world, plan)
    except HarnessError:
        return None
    except Exception:
        return None
    return has_violation(ctx, prop, cls)


def _fails_isolated(world, plan, prop, cls):
    """every candidate in a forked child: needed when the library under test keeps state between objects"""
    from .runner import isolated
    try:
        return isolated(_fails, world, plan, prop, cls, timeout=120)
    except Exception:
        return None


def shrink(world, plan, prop, cls, wall_s=60.0, max_exec=20000, isolate=False):
    t0 = time.time()
    execs = [0]
    fails = _fails_isolated if isolate else _fails

    def ok(p):
        execs[0] += 1
        return fails(world, p, prop, cls) is not None

    def budget():
        return time.time() - t0 < wall_s and execs[0] < max_exec

    best = plan
    steps = list(plan["steps"])
    # never drop step 0 if the world marks it pinned
    pinned = plan.get("pinned", 0)
    head, body = steps[:pinned], steps[pinned:]

    # truncate after the violating step first
    v = fails(world, plan, prop, cls)
    if v is None:
        return plan, {"execs": execs[0], "reproduced": False}
    if v["step"] is not None and v["step"] + 1 < len(steps) and v["step"] + 1 >= pinned:
        cand = dict(plan, steps=steps[: v["step"] + 1])
        if ok(cand):
            best = cand
            body = cand["steps"][pinned:]

    n = 2
    while len(body) >= 2 and budget():
        chunk = max(1, len(body) // n)
        reduced = False
        i = 0
        while i < len(body) and budget():
            cand_body = body[:i] + body[i + chunk :]
            cand = dict(best, steps=head + cand_body)
            if ok(cand):
                body = cand_body
                best = cand
                reduced = True
                n = max(n - 1, 2)
            else:
                i += chunk
        if not reduced:
            if chunk == 1:
                break
            n = min(len(body), n * 2)
    if len(body) == 1 and budget():
        cand = dict(best, steps=head)
        if ok(cand):
            best = cand

    # argument simplification to a fixpoint
    simplify = getattr(world, "simplify", None)
    if simplify is not None:
        progress = True
        while progress and budget():
            progress = False
            for cand in simplify(copy.deepcopy(best)):
                if not budget():
                    break
                if ok(cand):
                    best = cand
                    progress = True
                    break
    return best, {"execs": execs[0], "reproduced": True, "wall_s": round(time.time() - t0, 3)}
