"""Seeded search: many simulated runs across a fork pool, merged in the parent."""
import concurrent.futures as cf
import faulthandler
import importlib
import multiprocessing
import os
import sys
import time
import traceback

from .core import Abort, Ctx, HarnessError, execute_guarded, h64, jdump
from .rng import Rng, run_seed

CHUNK_TIMEOUT = 300


def load_world(name):
    return importlib.import_module("dsim.worlds." + name)


def one_run(world, verif_seed, tier, index, keep_log=False, props=None, config=None):
    seed = run_seed(verif_seed, world.NAME, index)
    rng = Rng(seed)
    if config is not None:
        plan = world.gen_plan(rng, tier, index, config=config)
    else:
        plan = world.gen_plan(rng, tier, index)
    plan.setdefault("world", world.NAME)
    plan["run_seed"] = "%064x" % seed
    plan["index"] = index
    ctx = Ctx(keep_log=keep_log, props=props)
    execute_guarded(world, plan, ctx)
    return plan, ctx


def isolated(func, *args, timeout=CHUNK_TIMEOUT + 60):
    """run func(*args) in a forked child and return its (picklable) result.  The caller's interpreter never
    executes code of the library under test, so every child starts from the same clean state: a chunk of runs
    is then one process history that a fresh interpreter can replay."""
    import pickle
    import select
    r, w = os.pipe()
    pid = os.fork()
    if pid == 0:
        try:
            os.close(r)
            try:
                payload = pickle.dumps(("ok", func(*args)))
            except BaseException:
                payload = pickle.dumps(("err", traceback.format_exc()))
            with os.fdopen(w, "wb") as f:
                f.write(payload)
        finally:
            os._exit(0)
    os.close(w)
    chunks = []
    deadline = time.time() + timeout
    with os.fdopen(r, "rb") as f:
        while True:
            left = deadline - time.time()
            if left <= 0:
                try:
                    os.kill(pid, 9)
                except OSError:
                    pass
                os.waitpid(pid, 0)
                raise HarnessError("isolated child timed out")
            ready, _, _ = select.select([f], [], [], min(left, 5.0))
            if not ready:
                continue
            b = f.read(1 << 20)
            if not b:
                break
            chunks.append(b)
    os.waitpid(pid, 0)
    if not chunks:
        raise HarnessError("isolated child died without a result")
    kind, val = pickle.loads(b"".join(chunks))
    if kind == "err":
        raise HarnessError("isolated child raised: " + val)
    return val


def _chunk(args):
    """one chunk of runs = one process history: executed in a forked child of the (clean) worker"""
    try:
        return isolated(_chunk_body, args)
    except HarnessError as e:
        world_name, verif_seed, tier, start, count, props, max_keep = args
        return {"runs": 0, "steps": 0, "obs": 0, "vtime": 0.0, "faults": {}, "probes": {}, "sigs": set(), "distinct": set(),
                "nontrivial": 0, "violations": [], "samples": [], "not_evaluated": {}, "harness": "chunk %d: %s" % (start, e),
                "harness_count": 1, "viol_counts": {}, "configs": {}}


def _chunk_body(args):
    world_name, verif_seed, tier, start, count, props, max_keep = args
    faulthandler.dump_traceback_later(CHUNK_TIMEOUT, exit=True)
    try:
        world = load_world(world_name)
        out = {
            "runs": 0, "steps": 0, "obs": 0, "vtime": 0.0,
            "faults": {}, "probes": {}, "sigs": set(), "distinct": set(),
            "nontrivial": 0, "violations": [], "samples": [], "not_evaluated": {},
            "harness": None, "viol_counts": {}, "configs": {},
        }
        for index in range(start, start + count):
            if out.get("hung", 0) >= 2:
                break   # (two runs of this chunk never returned: report what there is before the chunk watchdog fires)
            try:
                plan, ctx = one_run(world, verif_seed, tier, index, props=props)
            except HarnessError as e:
                out["harness"] = out["harness"] or "run %d: %s" % (index, e)
                out["harness_count"] = out.get("harness_count", 0) + 1
                if out["harness_count"] > 20:
                    break
                continue
            except Exception:
                out["harness"] = out["harness"] or "run %d: %s" % (index, traceback.format_exc())
                out["harness_count"] = out.get("harness_count", 0) + 1
                if out["harness_count"] > 20:
                    break
                continue
            if any(v["class"] == "did-not-return" for v in ctx.violations):
                out["hung"] = out.get("hung", 0) + 1
            out["runs"] += 1
            out["steps"] += ctx.steps_run
            out["obs"] += ctx.nobs
            out["vtime"] += ctx.vtime
            cfg = plan.get("config")
            ck = cfg if isinstance(cfg, str) else (cfg or {}).get("name", "-")
            out["configs"][ck] = out["configs"].get(ck, 0) + 1
            for k, v in ctx.faults.items():
                out["faults"][k] = out["faults"].get(k, 0) + v
            for k, v in ctx.probes.items():
                out["probes"][k] = out["probes"].get(k, 0) + v
            for k, v in ctx.not_evaluated.items():
                out["not_evaluated"][k] = out["not_evaluated"].get(k, 0) + 1
            if len(out["sigs"]) < 200000:
                for s in ctx.sigs:
                    out["sigs"].add(h64(s))
            if ctx.nontrivial:
                out["nontrivial"] += 1
                if len(out["distinct"]) < 200000:
                    out["distinct"].add(h64(world.normal_form(plan)))
                if len(out["samples"]) < 2:
                    out["samples"].append(plan)
            for v in ctx.violations:
                key = v["property"] + "|" + v["class"]
                out["viol_counts"][key] = out["viol_counts"].get(key, 0) + 1
            if ctx.violations:
                seen = set()
                for v in ctx.violations:
                    key = (v["property"], v["class"])
                    if key in seen:
                        continue
                    seen.add(key)
                    kept = sum(1 for (vv, _) in out["violations"] if (vv["property"], vv["class"]) == key)
                    if kept < max_keep:
                        plan["chunk_start"] = start   # the runs executed before this one in the same process
                        out["violations"].append((v, plan))
        return out
    finally:
        faulthandler.cancel_dump_traceback_later()


def merge(total, part):
    for k in ("runs", "steps", "obs", "nontrivial"):
        total[k] = total.get(k, 0) + part[k]
    total["vtime"] = total.get("vtime", 0.0) + part["vtime"]
    for name in ("faults", "probes", "not_evaluated", "viol_counts", "configs"):
        d = total.setdefault(name, {})
        for k, v in part[name].items():
            d[k] = d.get(k, 0) + v
    total.setdefault("sigs", set()).update(part["sigs"])
    total.setdefault("distinct", set()).update(part["distinct"])
    total.setdefault("violations", []).extend(part["violations"])
    s = total.setdefault("samples", [])
    for p in part["samples"]:
        if len(s) < 3:
            s.append(p)
    if part["harness"] and not total.get("harness"):
        total["harness"] = part["harness"]
    total["harness_count"] = total.get("harness_count", 0) + part.get("harness_count", 0)


def search(world_name, verif_seed, tier, budget_s, workers, chunk, props=None,
           start_index=0, max_runs=None, max_keep=4):
    """run chunks of simulated runs until the wall budget is spent; returns merged totals.
    The *set* of runs executed depends on wall time; each run is a pure function of
    (VERIF_SEED, world, index)."""
    total = {"world": world_name, "first_index": start_index}
    t0 = time.time()
    next_index = start_index
    if workers <= 1:
        while time.time() - t0 < budget_s and (max_runs is None or next_index - start_index < max_runs):
            part = _chunk((world_name, verif_seed, tier, next_index, chunk, props, max_keep))
            next_index += chunk
            merge(total, part)
            if total.get("harness_count", 0) > 100:
                break
        total["last_index"] = next_index - 1
        total["wall_s"] = time.time() - t0
        return total
    ctxmp = multiprocessing.get_context("fork")
    ex = cf.ProcessPoolExecutor(max_workers=workers, mp_context=ctxmp)
    pending = set()
    try:
        def submit():
            nonlocal next_index
            if max_runs is not None and next_index - start_index >= max_runs:
                return False
            f = ex.submit(_chunk, (world_name, verif_seed, tier, next_index, chunk, props, max_keep))
            pending.add(f)
            next_index += chunk
            return True

        for _ in range(workers * 2):
            if not submit():
                break
        while pending:
            done, _ = cf.wait(pending, timeout=CHUNK_TIMEOUT + 30, return_when=cf.FIRST_COMPLETED)
            if not done:
                total["harness"] = "worker timeout"
                break
            for f in done:
                pending.discard(f)
                try:
                    part = f.result()
                except Exception as e:  # BrokenProcessPool etc.
                    total["harness"] = "worker died: %r" % (e,)
                    pending.clear()
                    break
                merge(total, part)
                if total.get("harness_count", 0) > 100 or str(total.get("harness", "")).startswith("worker"):
                    pending.clear()
                    break
                if time.time() - t0 < budget_s:
                    submit()
            if total.get("harness_count", 0) > 100 or str(total.get("harness", "")).startswith("worker"):
                break
    finally:
        procs = list((getattr(ex, "_processes", None) or {}).values())
        dead = str(total.get("harness", "")).startswith("worker")
        ex.shutdown(wait=not dead, cancel_futures=True)
        if dead:
            for p in procs:
                try:
                    p.terminate()
                except Exception:
                    pass
    total["last_index"] = next_index - 1
    total["wall_s"] = time.time() - t0
    return total
