"""known_findings.json is committed and never written at run time."""
import json
import os

PATH = os.path.join(os.path.dirname(os.path.dirname(os.path.dirname(os.path.abspath(__file__)))), "known_findings.json")


def load():
    if not os.path.exists(PATH):
        return []
    with open(PATH) as f:
        return json.load(f).get("findings", [])


def match(findings, prop, cls, fingerprint):
    """only *open* findings suppress; 'fixed' entries are informational"""
    for f in findings:
        if f.get("status") != "open":
            continue
        if f["property"] == prop and f["class"] == cls and f["fingerprint"] == fingerprint:
            return f
    return None
