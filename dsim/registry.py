"""Which simulated worlds decide which property, and the budgets per tier."""

# property -> list of (world, share of wall budget, chunk size)
PROPERTIES = {
    "C15": [("chain", 1.0, 400)],
    "C01": [("ec", 1.0, 8)],
    "C02": [("ec", 1.0, 8)],
    "C04": [("cosign", 1.0, 10)],
    "C05": [("cosign", 1.0, 10)],
    "C06": [("cosign", 0.88, 10), ("wallet", 0.12, 60)],
    "C07": [("cosign", 0.45, 10), ("wallet", 0.3, 60), ("wire", 0.25, 20)],
    "C09": [("hd", 1.0, 20)],
    "C13": [("wallet", 1.0, 60)],
    "C14": [("spv", 1.0, 40)],
    "C19": [("hashcfg", 0.5, 100), ("spv", 0.5, 40)],
}

# wall seconds of search per property (shrinking and evidence writing come on top)
BUDGET = {"quick": 45.0, "thorough": 900.0}

TITLES = {}


def worlds_for(prop):
    return PROPERTIES[prop]
