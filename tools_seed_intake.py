#!/usr/bin/env python3
"""Intake of an independently written breaking change: confirm it in a fresh scratch worktree
(suite still passes except the 4 baseline failures; demo passes without, fails with), store it under
/verif/seeded/<name>/, then run the property's quick check against it in a scratch copy.
usage: tools_seed_intake.py <srcdir> <name>
"""
import json, os, shutil, subprocess, sys
src, name = sys.argv[1], sys.argv[2]
meta = json.load(open(os.path.join(src, "meta.json")))
prop = meta["property"]
wt = "/tmp/seedchk-%s" % name
subprocess.run(["git", "-C", "/repo", "worktree", "remove", "--force", wt], capture_output=True)
subprocess.run(["git", "-C", "/repo", "worktree", "add", "-q", "--detach", wt, "HEAD"], check=True)
res = {"property": prop}
try:
    env = dict(os.environ, PYTHONPATH=wt, PYTHONDONTWRITEBYTECODE="1")
    env.pop("PYTHONHASHSEED", None)
    shutil.copy(os.path.join(src, "demo.py"), os.path.join(wt, "demo.py"))
    r0 = subprocess.run(["/venv/bin/python", "demo.py"], cwd=wt, env=env, capture_output=True, text=True, timeout=900)
    res["demo_without"] = (r0.returncode, (r0.stdout + r0.stderr)[-300:])
    a = subprocess.run(["git", "-C", wt, "apply", os.path.join(src, "patch.diff")], capture_output=True, text=True)
    res["apply"] = a.returncode
    r1 = subprocess.run(["/venv/bin/python", "demo.py"], cwd=wt, env=env, capture_output=True, text=True, timeout=900)
    res["demo_with"] = (r1.returncode, (r1.stdout + r1.stderr)[-400:])
    t = subprocess.run(["/venv/bin/python", "-m", "pytest", "-q", "-p", "no:cacheprovider", "-n", "12", "--timeout=900", "tests"],
                       cwd=wt, env=env, capture_output=True, text=True, timeout=3000)
    tail = t.stdout.strip().splitlines()
    failed = sorted(l.split()[1] for l in tail if l.startswith("FAILED"))
    res["suite_tail"] = tail[-1] if tail else ""
    known = ["test_tx_ignored_locktime_txt", "test_tx_pay_to_opcode_list_txt", "test_tx_fetch_unspent", "test_BlockchainInfo"]
    res["suite_only_known_failures"] = all(any(k in f for k in known) for f in failed) and len(failed) <= 4
    res["failed"] = failed
finally:
    subprocess.run(["git", "-C", "/repo", "worktree", "remove", "--force", wt], capture_output=True)
ok = res.get("apply") == 0 and res["demo_without"][0] == 0 and res["demo_with"][0] != 0 and res["suite_only_known_failures"]
res["confirmed"] = ok
print(json.dumps(res, indent=1))
if ok:
    dst = os.path.join("/verif/seeded", name)
    os.makedirs(dst, exist_ok=True)
    for f in ("patch.diff", "demo.py"):
        shutil.copy(os.path.join(src, f), os.path.join(dst, f))
    meta["confirmed_by_me"] = {"demo_without_change": "exit %d" % res["demo_without"][0], "demo_with_change": "exit %d" % res["demo_with"][0],
                               "suite": res["suite_tail"], "how": "fresh scratch worktree of /repo HEAD under /tmp, removed afterwards"}
    json.dump(meta, open(os.path.join(dst, "meta.json"), "w"), indent=1)
    print("stored in", dst)
