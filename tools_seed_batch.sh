#!/bin/sh
# usage: tools_seed_batch.sh <srcdir> <name> [budget]   intake + worktree removal + quick check against the change
src=$1; name=$2; budget=${3:-40}
cd /verif
python3 tools_seed_intake.py $src $name 2>&1 | grep -E "\"confirmed\"|stored|suite_tail|demo_w" | tr -d '\n'; echo
git -C /repo worktree remove --force $src 2>/dev/null
[ -d /verif/seeded/$name ] || exit 1
prop=$(python3 -c "import json;print(json.load(open('/verif/seeded/$name/meta.json'))['property'])")
base=/dev/shm/verif-seedrun-$$-$name
rm -rf $base; mkdir -p $base/tests/btc $base/_out; cp -r /repo/pycoin $base/pycoin; cp -r /repo/tests/btc/data $base/tests/btc/data
patch -s -p1 -d $base -i /verif/seeded/$name/patch.diff || { echo PATCH-FAILED; rm -rf $base; exit 3; }
VERIF_REPO=$base VERIF_OUT_DIR=$base/_out /verif/vcheck check $prop --tier quick --budget $budget --det-runs 2 2>&1 | grep -E "class=|runs=|HARNESS" | cut -c1-220 | sort | uniq -c | sort -rn | head -4
rm -rf $base
